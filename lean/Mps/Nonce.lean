import Mps.Blake3
import Mps.Session
import Mps.Sig
/-
  C11 — nonce derivation, exactly as coded.

  FROST signing round 1 (protocols/frost/sign/round1.go, `round1.Finalize`):

      s_iBytes   := r.s_i.MarshalBinary()                          -- 32 bytes
      hashKey    := blake3.DeriveKey(deriveHashKeyContext, s_iBytes)  (32 bytes)
      nonceHasher = blake3.NewKeyed(hashKey)
      nonceHasher.Write(r.Hash().Sum())                            -- 64-byte digest of the session hash
      nonceHasher.Write(r.M)                                       -- the message, no length prefix
      a := 32 bytes from crypto/rand;  nonceHasher.Write(a)
      nonceDigest := nonceHasher.Digest()                          -- XOF reader
      d_i := sample.ScalarUnit(nonceDigest); e_i := sample.ScalarUnit(nonceDigest)
      D_i := d_i·G; E_i := e_i·G

  `sample.ScalarUnit` (pkg/math/sample/sample.go) reads `SafeScalarBytes() = 32` bytes, reduces
  them mod n (`SetNat`) and retries (at most 255 times) while the result is zero.

  The session hash holds what `round.NewSession` wrote (`Mps.sessionItems`): optional session id,
  protocol id ("frost/sign-threshold" or "frost/sign-threshold-taproot"), group name, the signer
  set, the threshold.
-/
namespace Mps.Nonce
open Mps Mps.Secp

def deriveHashKeyContext : String :=
  "github.com/taurusgroup/multi-party-sig/frost 2021-07-30T09:48+00:00 Derive hash Key"

def protocolID : String := "frost/sign-threshold"
def protocolIDTaproot : String := "frost/sign-threshold-taproot"

/-- the byte string written into the keyed hasher -/
def frostNonceInput (ssidDigest m a : Bytes) : Bytes := ssidDigest ++ m ++ a

/-- session parameters of a FROST signing session (`sign.StartSignCommon`): no aux items -/
def frostSession (sid : Option Bytes) (taproot : Bool) (signers : List Bytes) (thr : Nat) : SessionParams :=
  { sid := sid, proto := str (if taproot then protocolIDTaproot else protocolID),
    group := some (str "secp256k1"), ids := signers, thr := thr, aux := [] }

/-- `sample.ScalarUnit` on a reader whose next 32 bytes at offset `off` are `read off`:
    `none` models `panic(ErrMaxIterations)`; the result is (scalar, new offset). -/
def scalarUnit (read : Nat → Bytes) : Nat → Nat → Option (Nat × Nat)
  | 0, _ => none
  | fuel + 1, off =>
    let v := unbe (read off) % n           -- Scalar: SetBytes(buffer); SetNat reduces mod n
    if v ≠ 0 then some (v, off + 32) else scalarUnit read fuel (off + 32)

def maxIterations : Nat := 255

/-- (d_i, e_i) from an XOF read function -/
def noncePair (read : Nat → Bytes) : Option (Nat × Nat) :=
  match scalarUnit read maxIterations 0 with
  | none => none
  | some (d, off) =>
    match scalarUnit read maxIterations off with
    | none => none
    | some (e, _) => some (d, e)

/-- the whole derivation over abstract hash functions: `H` the session hash (64-byte digest of
    the transcript), `KDF` the key derivation, `KX key data off` the keyed XOF stream -/
def frostNoncesWith (H : Bytes → Bytes) (KDF : Bytes → Bytes) (KX : Bytes → Bytes → Nat → Bytes)
    (share : Bytes) (sp : SessionParams) (m a : Bytes) : Option (Nat × Nat) :=
  noncePair (KX (KDF share) (frostNonceInput (ssidWith H sp) m a))

/-- the three BLAKE3 instances of round1.go: session hash (`hash.Hash.Sum`), `blake3.DeriveKey`
    with the context string, `blake3.NewKeyed(key)` + `Digest()` read at an offset -/
def blakeH (b : Bytes) : Bytes := Blake3.hashXof b 64
def blakeKDF (share : Bytes) : Bytes := Blake3.deriveKey deriveHashKeyContext share 32
def blakeKX (key input : Bytes) (off : Nat) : Bytes :=
  (Blake3.rootOutput (Blake3.keyWords key) Blake3.KEYED_HASH input.toArray).read off 32

/-- … with BLAKE3: what the Go code computes, bit for bit -/
def frostNonces (share : Bytes) (sp : SessionParams) (m a : Bytes) : Option (Nat × Nat) :=
  frostNoncesWith blakeH blakeKDF blakeKX share sp m a

/-- the commitments D_i, E_i a signer broadcasts in round 2 -/
def frostCommitments (share : Bytes) (sp : SessionParams) (m a : Bytes) : Option (Pt × Pt) :=
  (frostNonces share sp m a).map fun (d, e) => (mul d G, mul e G)

/-- a signing context of one FROST signer: everything round 1 depends on -/
structure FrostCtx where
  share   : Bytes          -- s_i.MarshalBinary()
  sid     : Option Bytes   -- session id handed to the handler (nil ⇒ none)
  taproot : Bool           -- protocol variant
  signers : List Bytes     -- signer set (sorted ids)
  thr     : Nat            -- threshold of the config
  m       : Bytes          -- message (hash)
  a       : Bytes          -- the 32 bytes obtained from crypto/rand
  deriving DecidableEq, Repr

def FrostCtx.session (c : FrostCtx) : SessionParams := frostSession c.sid c.taproot c.signers c.thr

/-- the nonce pair of a context over abstract hash functions -/
def FrostCtx.noncesWith (H KDF : Bytes → Bytes) (KX : Bytes → Bytes → Nat → Bytes) (c : FrostCtx) : Option (Nat × Nat) :=
  frostNoncesWith H KDF KX c.share c.session c.m c.a

def FrostCtx.commitments (c : FrostCtx) : Option (Pt × Pt) := frostCommitments c.share c.session c.m c.a

/-! ## BIP-340 nonce path of `taproot.SecretKey.Sign` — see `Mps.Sig.Bip340.signGo`:
    t = bytes(d) ⊕ hash_aux(a);  rand = hash_nonce(t ‖ bytes(P) ‖ m);  a = reader bytes or
    counter. The nonce commitment is the first half of the signature. -/

def bip340NonceCommitment (sk : Bytes) (rs : Sig.Bip340.RandSrc) (m : Bytes) : Option Bytes :=
  (Sig.Bip340.signGo sk rs m).map (·.take 32)

end Mps.Nonce
