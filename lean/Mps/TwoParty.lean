import Mps.Handler
/-
  M5b: `protocol.TwoPartyHandler` (pkg/protocol/twoparty.go) as a state machine over a scripted
  two-party protocol: rounds only exchange p2p messages, one message per round and direction at most.
  Transcription of NewTwoPartyHandler / Accept / advance / abort / Stop (after the Stop repair).
-/
namespace Mps.TwoParty
open Mps Mps.Handler

structure Round2 where
  num   : Nat
  recv  : Bool      -- MessageContent() ≠ nil: the round waits for the peer's message
  send  : Bool      -- Finalize sends one message (for the peer's round with number `sendNum`)
  sendNum : Nat
  deriving DecidableEq, Repr, Inhabited

structure Script2 where
  ids    : List Bytes
  self   : Bytes
  peer   : Bytes
  final  : Nat
  rounds : List Round2
  proto  : Bytes
  ssid   : Bytes
  leader : Bool
  finErrAt : Nat
  deriving Repr, Inhabited

inductive Err2 where
  | msgFail | peerAbort | finalizeErr | protoAbort | stopped
  deriving DecidableEq, Repr, Inhabited

structure State2 where
  sc      : Script2
  idx     : Nat
  cur     : Nat                        -- round.Number() of h.round (0 once Output / Abort)
  ended   : Bool                       -- h.round is an Output / Abort round
  msgs    : List (Nat × Msg)           -- h.messages, last write wins
  err     : Option Err2
  result  : Option Nat
  out     : List Msg
  closes  : Nat
  acc     : Nat
  accuse  : Bool
  deriving Repr, Inhabited

def curRound (s : State2) : Round2 := s.sc.rounds.getD s.idx default

def lookup2 (q : List (Nat × Msg)) (r : Nat) : Option Msg := (q.find? fun e => e.1 == r).map (·.2)

def put2 (q : List (Nat × Msg)) (r : Nat) (m : Msg) : List (Nat × Msg) := (r, m) :: q.filter (fun e => e.1 != r)

def canAccept2 (s : State2) (m : Msg) : Bool :=
  isFor m s.sc.self && m.proto == s.sc.proto && (m.ssid.getD [] == s.sc.ssid) && s.sc.ids.contains m.frm
  && m.data.isSome && !(m.rnd > s.sc.final)

def abort2 (s : State2) (e : Option Err2) : State2 :=
  match e with
  | some k =>
    let notice : Msg := { ssid := some s.sc.ssid, frm := s.sc.self, to := [], proto := s.sc.proto, rnd := 0,
                          data := some [], bcast := false, bv := none, dec := none }
    { s with err := some k, out := s.out ++ [notice], closes := s.closes + 1 }
  | none => { s with closes := s.closes + 1 }

def terminal2 (s : State2) : Bool := s.err.isSome || s.result.isSome

/-- `canAdvance` -/
def canAdvance (s : State2) : Bool :=
  if s.ended then true            -- Output/Abort rounds have MessageContent() == nil (not reached: advance returned)
  else if !(curRound s).recv then true else (lookup2 s.msgs s.cur).isSome

inductive Step2 where
  | halt (s : State2)
  | more (s : State2)

/-- one iteration of the `for h.canAdvance()` loop of `advance` -/
def advanceStep (s : State2) : Step2 :=
  if !canAdvance s then .halt s else
  let r := curRound s
  -- verifyMessage(msg): a nil message (round without input) is fine
  let stored : Option State2 :=
    match lookup2 s.msgs s.cur with
    | none => some s
    | some m =>
      if !r.recv then none          -- MessageContent() == nil: unmarshal into nil fails
      else match m.dec with
        | none => none
        | some c =>
          if hasFlag c.f fFailVerify || hasFlag c.f fFailStore then none
          else some { s with acc := s.acc + c.v, accuse := s.accuse || hasFlag c.f fAccuse }
  match stored with
  | none => .halt (abort2 s (some .msgFail))
  | some s1 =>
    if s1.sc.finErrAt != 0 && s1.sc.finErrAt == s1.cur then .halt (abort2 s1 (some .finalizeErr))
    else if s1.accuse then .halt (abort2 { s1 with ended := true, cur := 0 } (some .protoAbort))
    else match s1.sc.rounds[s1.idx + 1]? with
      | none => .halt (abort2 { s1 with ended := true, cur := 0, result := some s1.acc } none)
      | some nx =>
        let ems : List Msg :=
          if r.send then
            let c : Content := ⟨honestV { ids := s1.sc.ids, self := s1.sc.self, final := 0, rounds := [], proto := [], ssid := [],
                                          sess := [], finErrAt := 0 } s1.sc.self s1.sc.peer r.sendNum, 0⟩
            [{ ssid := some s1.sc.ssid, frm := s1.sc.self, to := s1.sc.peer, proto := s1.sc.proto, rnd := r.sendNum,
               data := some (cborContent c), bcast := false, bv := none, dec := some c }]
          else []
        .more { s1 with out := s1.out ++ ems, idx := s1.idx + 1, cur := nx.num }

def advance : Nat → State2 → State2
  | 0, s => s
  | fuel + 1, s =>
    match advanceStep s with
    | .halt s' => s'
    | .more s' => advance fuel s'

def init2 (sc : Script2) : State2 :=
  let r1 := sc.rounds.getD 0 default
  let s0 : State2 := { sc := sc, idx := 0, cur := r1.num, ended := false, msgs := [], err := none, result := none,
                       out := [], closes := 0, acc := 0, accuse := false }
  if sc.leader then advance (sc.rounds.length + 1) s0 else s0

def accept2 (s : State2) (m : Msg) : State2 :=
  if !canAccept2 s m || terminal2 s then s
  else if m.rnd == 0 then abort2 s (some .peerAbort)
  else advance (s.sc.rounds.length + 1) { s with msgs := put2 s.msgs m.rnd m }

def stop2 (s : State2) : State2 := if terminal2 s then s else abort2 s (some .stopped)

inductive Call2 where
  | accept (m : Msg) | canAccept (m : Msg) | listen | result | stop

def apply2 (s : State2) : Call2 → State2
  | .accept m => accept2 s m
  | .stop => stop2 s
  | _ => s

def run2 (sc : Script2) (calls : List Call2) : State2 := calls.foldl apply2 (init2 sc)

end Mps.TwoParty
