import Mps.TwoParty
/-
  A session of the TWO handlers of a two-party protocol (`Mps.TwoParty`): the leader (`NewTwoPartyHandler(…, true)`,
  which runs `advance` in its constructor) and the follower (`NewTwoPartyHandler(…, false)`, which does not move
  until its first `Accept`). The global state is the pair of handler states, a step delivers one message to one of
  the two parties, a schedule is a list of such deliveries. A schedule is *causal* when every delivered message
  is, at the time of its delivery, in the `out` list of the OTHER party's handler: messages are delivered only
  after they were emitted — in any order, any number of times, interleaved arbitrarily, after any delay (this
  handler has neither a stale filter nor a duplicate filter). Nothing else is assumed about the network.
  Core-only.
-/
namespace Mps.System2
open Mps Mps.Handler Mps.TwoParty

/-- the two parties of a session: `L` was built with `leader = true`, `F` with `leader = false` -/
inductive Side where
  | L | F
  deriving DecidableEq, Repr, Inhabited

def Side.other : Side → Side
  | .L => .F
  | .F => .L

/-- global state of a session: the two handlers -/
structure Sys2 where
  l : State2
  f : State2
  deriving Repr, Inhabited

def Sys2.get (σ : Sys2) : Side → State2
  | .L => σ.l
  | .F => σ.f

def scriptOf (scL scF : Script2) : Side → Script2
  | .L => scL
  | .F => scF

/-- both parties have built their handler (`NewTwoPartyHandler`): the leader has already run `advance` -/
def Sys2.init (scL scF : Script2) : Sys2 := ⟨init2 scL, init2 scF⟩

/-- party `p` accepts `m` -/
def Sys2.deliver (σ : Sys2) (p : Side) (m : Msg) : Sys2 :=
  match p with
  | .L => { σ with l := accept2 σ.l m }
  | .F => { σ with f := accept2 σ.f m }

/-- a schedule: (recipient, message) pairs in the order of delivery -/
abbrev Sched2 := List (Side × Msg)

def Sys2.runFrom (σ : Sys2) (sched : Sched2) : Sys2 := sched.foldl (fun τ e => τ.deliver e.1 e.2) σ

/-- the session after the deliveries of `sched` -/
def Sys2.run (scL scF : Script2) (sched : Sched2) : Sys2 := (Sys2.init scL scF).runFrom sched

/-- the delivery of `m` to `p` is possible in `σ`: the other party's handler has emitted `m` -/
def Sys2.canDeliver (σ : Sys2) (p : Side) (m : Msg) : Bool := (σ.get p.other).out.contains m

def causalFrom2 (σ : Sys2) : Sched2 → Bool
  | [] => true
  | e :: rest => σ.canDeliver e.1 e.2 && causalFrom2 (σ.deliver e.1 e.2) rest

/-- every delivery of the schedule is possible at the time it happens -/
def Causal2 (scL scF : Script2) (sched : Sched2) : Bool := causalFrom2 (Sys2.init scL scF) sched

/-- the messages delivered to `p`, in order -/
def delivered2 (sched : Sched2) (p : Side) : List Msg := (sched.filter fun e => e.1 == p).map (·.2)

/-- fair to the end: whatever a party has emitted has been delivered to the other one -/
def Complete2 (σ : Sys2) (sched : Sched2) : Bool :=
  (σ.f.out.all fun m => (delivered2 sched .L).contains m) && (σ.l.out.all fun m => (delivered2 sched .F).contains m)

/-! ### closed forms -/

/-- the scripted content value (`honestV` of the harness; it only looks at the id list) -/
def hv2 (ids : List Bytes) (frm to : Bytes) (n : Nat) : Nat :=
  honestV { ids := ids, self := frm, final := 0, rounds := [], proto := [], ssid := [], sess := [], finErrAt := 0 } frm to n

/-- the message the party running `sc` emits for the peer's round number `n` (what `advanceStep` builds) -/
def msgOf (sc : Script2) (n : Nat) : Msg :=
  let c : Content := ⟨hv2 sc.ids sc.self sc.peer n, 0⟩
  { ssid := some sc.ssid, frm := sc.self, to := sc.peer, proto := sc.proto, rnd := n,
    data := some (cborContent c), bcast := false, bv := none, dec := some c }

/-- the messages the rounds `rs` of `sc` send when they are finalized, in order -/
def sends (sc : Script2) (rs : List Round2) : List Msg := (rs.filter (·.send)).map fun r => msgOf sc r.sendNum

/-- everything the party running `sc` ever emits, in order: the LAST round of a script only returns the result
    (`Finalize` of the harness's `tRound` returns `ResultRound` before it looks at `Send`), so its `send` flag
    is irrelevant -/
def idealOut2 (sc : Script2) : List Msg := sends sc sc.rounds.dropLast

/-- the result of the party running `sc`: the sum of the scripted values of the messages its rounds consume -/
def sessionValue2 (sc : Script2) : Nat :=
  ((sc.rounds.filter (·.recv)).map fun sp => hv2 sc.ids sc.peer sc.self sp.num).sum

/-! ### the side conditions -/

/-- Two scripts that talk to each other (needed for (a), (b), (c)). Every field is used; the non-obvious ones
    have kernel-evaluated counterexamples in MpsProps/C07TwoPartySystem.lean (`Cex`).
    Two kinds of conditions: those whose violation makes a handler ABORT on the peer's scripted message
    (`numsL/F`, `1 ≤ sendNum`, the target round expects input, `noFinErrL/F`: counterexamples for (b) and (c)), and
    those whose violation makes `CanAccept` REFUSE it (ids, self / peer, protocol id, ssid, `sendNum ≤ final`): a refused
    message changes nothing, so (b) would survive, but then the emitted messages are not an `Honest2` set (which by
    definition consists of acceptable messages), the parties do not talk to each other, and (d) fails. Likewise a
    message whose number belongs to NO round of the peer would only sit in its store; `Honest2` asks for a round
    that expects it, and so does `sendsL/F`. -/
structure Session2Ok (scL scF : Script2) : Prop where
  /-- the session shape: one handler built with `leader = true`, the other with `leader = false` -/
  leaderL : scL.leader = true
  leaderF : scF.leader = false
  /-- common party list; `self` / `peer` swapped; two different parties, both in the list (`CanAccept` refuses a
      message whose sender is not a party, and `IsFor` refuses the own id as sender) -/
  ids : scL.ids = scF.ids
  peerL : scL.peer = scF.self
  peerF : scF.peer = scL.self
  distinct : scL.self ≠ scF.self
  memL : scL.self ∈ scL.ids
  memF : scF.self ∈ scL.ids
  /-- common protocol id, ssid, final round number (`CanAccept` compares them) -/
  proto : scL.proto = scF.proto
  ssid : scL.ssid = scF.ssid
  final : scL.final = scF.final
  /-- no scripted `Finalize` failure -/
  noFinErrL : scL.finErrAt = 0
  noFinErrF : scF.finErrAt = 0
  /-- the round numbers of each script are pairwise different (`Cex.dup_rounds_abort`) -/
  numsL : scL.rounds.Pairwise (fun a b => a.num ≠ b.num)
  numsF : scF.rounds.Pairwise (fun a b => a.num ≠ b.num)
  /-- MATCHING: every message a party sends (a round other than its last one with `send = true`) carries a round
      number that is not 0 (0 marks an abort notice: `Cex.send_zero_aborts`), is not above the final round number
      (`CanAccept`), and is the number of a round of the other party that expects input (`Cex.send_to_silent_aborts`) -/
  sendsL : ∀ r ∈ scL.rounds.dropLast, r.send = true →
    1 ≤ r.sendNum ∧ r.sendNum ≤ scL.final ∧ ∃ sp ∈ scF.rounds, sp.num = r.sendNum ∧ sp.recv = true
  sendsF : ∀ r ∈ scF.rounds.dropLast, r.send = true →
    1 ≤ r.sendNum ∧ r.sendNum ≤ scL.final ∧ ∃ sp ∈ scL.rounds, sp.num = r.sendNum ∧ sp.recv = true

instance (scL scF : Script2) : Decidable (Session2Ok scL scF) :=
  decidable_of_iff (scL.leader = true ∧ scF.leader = false ∧ scL.ids = scF.ids ∧ scL.peer = scF.self ∧
      scF.peer = scL.self ∧ scL.self ≠ scF.self ∧ scL.self ∈ scL.ids ∧ scF.self ∈ scL.ids ∧ scL.proto = scF.proto ∧
      scL.ssid = scF.ssid ∧ scL.final = scF.final ∧ scL.finErrAt = 0 ∧ scF.finErrAt = 0 ∧
      scL.rounds.Pairwise (fun a b => a.num ≠ b.num) ∧ scF.rounds.Pairwise (fun a b => a.num ≠ b.num) ∧
      (∀ r ∈ scL.rounds.dropLast, r.send = true →
        1 ≤ r.sendNum ∧ r.sendNum ≤ scL.final ∧ ∃ sp ∈ scF.rounds, sp.num = r.sendNum ∧ sp.recv = true) ∧
      (∀ r ∈ scF.rounds.dropLast, r.send = true →
        1 ≤ r.sendNum ∧ r.sendNum ≤ scL.final ∧ ∃ sp ∈ scL.rounds, sp.num = r.sendNum ∧ sp.recv = true))
    ⟨fun h => ⟨h.1, h.2.1, h.2.2.1, h.2.2.2.1, h.2.2.2.2.1, h.2.2.2.2.2.1, h.2.2.2.2.2.2.1, h.2.2.2.2.2.2.2.1,
        h.2.2.2.2.2.2.2.2.1, h.2.2.2.2.2.2.2.2.2.1, h.2.2.2.2.2.2.2.2.2.2.1, h.2.2.2.2.2.2.2.2.2.2.2.1,
        h.2.2.2.2.2.2.2.2.2.2.2.2.1, h.2.2.2.2.2.2.2.2.2.2.2.2.2.1, h.2.2.2.2.2.2.2.2.2.2.2.2.2.2.1,
        h.2.2.2.2.2.2.2.2.2.2.2.2.2.2.2.1, h.2.2.2.2.2.2.2.2.2.2.2.2.2.2.2.2⟩,
     fun h => ⟨h.1, h.2, h.3, h.4, h.5, h.6, h.7, h.8, h.9, h.10, h.11, h.12, h.13, h.14, h.15, h.16, h.17⟩⟩

/-- What (d) needs on top of `Session2Ok`: no party waits forever.
    * the round numbers of each script increase (`Cex.unordered_deadlock`);
    * every round that expects input is fed: the other party has a round, not its last one, that sends a message
      with this round's number, and the sending round's own number is smaller — or equal, but then the sending round
      needs no input itself (the leader's first round in the alternating shape: round 1 sends the message for the
      follower's round 1). Without the order condition two rounds can wait for each other (`Cex.cyclic_deadlock`);
    * the follower does not move in its constructor: if its first round needs no input, it is the leader's first
      message that wakes it, so the leader's first round must need no input, send, and not be the last one
      (`Cex.unwoken_deadlock`). -/
structure Session2Live (scL scF : Script2) : Prop where
  incrL : scL.rounds.Pairwise (fun a b => a.num < b.num)
  incrF : scF.rounds.Pairwise (fun a b => a.num < b.num)
  recvL : ∀ sp ∈ scL.rounds, sp.recv = true → ∃ r ∈ scF.rounds.dropLast, r.send = true ∧ r.sendNum = sp.num ∧
    (r.num < sp.num ∨ (r.num = sp.num ∧ r.recv = false))
  recvF : ∀ sp ∈ scF.rounds, sp.recv = true → ∃ r ∈ scL.rounds.dropLast, r.send = true ∧ r.sendNum = sp.num ∧
    (r.num < sp.num ∨ (r.num = sp.num ∧ r.recv = false))
  wake : (scF.rounds.getD 0 default).recv = true ∨
    ((scL.rounds.getD 0 default).recv = false ∧ (scL.rounds.getD 0 default).send = true ∧ 2 ≤ scL.rounds.length)

instance (scL scF : Script2) : Decidable (Session2Live scL scF) :=
  decidable_of_iff (scL.rounds.Pairwise (fun a b => a.num < b.num) ∧ scF.rounds.Pairwise (fun a b => a.num < b.num) ∧
      (∀ sp ∈ scL.rounds, sp.recv = true → ∃ r ∈ scF.rounds.dropLast, r.send = true ∧ r.sendNum = sp.num ∧
        (r.num < sp.num ∨ (r.num = sp.num ∧ r.recv = false))) ∧
      (∀ sp ∈ scF.rounds, sp.recv = true → ∃ r ∈ scL.rounds.dropLast, r.send = true ∧ r.sendNum = sp.num ∧
        (r.num < sp.num ∨ (r.num = sp.num ∧ r.recv = false))) ∧
      ((scF.rounds.getD 0 default).recv = true ∨
        ((scL.rounds.getD 0 default).recv = false ∧ (scL.rounds.getD 0 default).send = true ∧ 2 ≤ scL.rounds.length)))
    ⟨fun h => ⟨h.1, h.2.1, h.2.2.1, h.2.2.2.1, h.2.2.2.2⟩, fun h => ⟨h.1, h.2, h.3, h.4, h.5⟩⟩

end Mps.System2
