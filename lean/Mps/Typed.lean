import Mps.Frame
/-
  M1: the typed values accepted by `hash.Hash.WriteAny` and the (domain, data) pair each one is
  turned into. One constructor per Go type that reaches the transcript hash. `none` models the
  error return of `WriteAny` (nothing is written for that value).
-/
namespace Mps

inductive TVal where
  | nilv                                       -- a nil []byte / *big.Int / IDSlice / RID / Commitment / … : refused
  | bytes   (b : Bytes)                        -- []byte
  | bigint  (neg : Bool) (abs : Nat)           -- *big.Int: (negative?, |v|); Gob encoding
  | id      (b : Bytes)                        -- party.ID, non-empty (the empty ID is refused: `nilv`)
  | ids     (l : List Bytes)                   -- party.IDSlice
  | rid     (b : Bytes)                        -- types.RID
  | thr     (n : Nat)                          -- types.ThresholdWrapper (uint32)
  | rnd     (n : Nat)                          -- round.Number (uint16, written as uint64)
  | sigmsgNil                                  -- types.SigningMessage(nil): its own domain, empty data
  | sigmsg  (b : Bytes)                        -- types.SigningMessage
  | bwd     (dom : Bytes) (b : Bytes)          -- hash.BytesWithDomain
  | com     (b : Bytes)                        -- hash.Commitment
  | decom   (b : Bytes)                        -- hash.Decommitment
  | point   (enc : Bytes)                      -- curve.Point via BinaryMarshaler (33 bytes)
  | scalar  (enc : Bytes)                      -- curve.Scalar via BinaryMarshaler (32 bytes)
  | ct      (v : Nat)                          -- *paillier.Ciphertext: 512-byte big endian
  | pk      (n : Nat)                          -- *paillier.PublicKey: minimal big endian of N
  | ped     (n s t : Nat)                      -- *pedersen.Parameters: 3 × 256 bytes
  | elg     (l m : Bytes)                      -- *elgamal.Ciphertext: two encoded points
  | opaque  (dom : Bytes) (data : Bytes)       -- any other WriterToWithDomain (Exponent, Config …): bytes given
  deriving DecidableEq, Repr, Inhabited

/-- Domain literal of every fixed-domain Go type, as used by `encode` below.
    `MpsProps.C19` proves this table equal to the one regenerated from the source. -/
def typeDomains : List (String × String) :=
  [ ("Commitment", "Commitment"), ("Decommitment", "Decommitment"),
    ("ID", "ID"), ("IDSlice", "IDSlice"), ("RID", "RID"), ("ThresholdWrapper", "Threshold"),
    ("Number", "Round Number"), ("SigningMessage", "Empty Message|Signature Message"),
    ("PublicKey", "Paillier PublicKey"), ("Ciphertext", "Paillier Ciphertext|ElGamal Ciphertext"),
    ("Parameters", "Pedersen Parameters"), ("Exponent", "Exponent"),
    ("Config", "CMP Config"), ("Public", "Public Data"),
    ("messageHash", "messageHash"), ("BytesWithDomain", "<field TheDomain>") ]

def gobBigInt (neg : Bool) (abs : Nat) : Bytes :=
  UInt8.ofNat (2 + (if neg then 1 else 0)) :: natBytes abs

/-- `party.IDSlice.WriteTo` as shipped in the pinned snapshot: count, then the bare
    concatenation of the ids. NOT injective (`MpsProps.C19.idsDataOld_collision`); repaired in
    /repo by a `fix:` commit, kept here only to state the witness. -/
def idsDataOld (l : List Bytes) : Bytes := be64 l.length ++ l.flatten

def idsBody : List Bytes → Bytes
  | [] => []
  | i :: is => be64 i.length ++ i ++ idsBody is

/-- `party.IDSlice.WriteTo` (after the fix): count, then every id with its 8-byte length. -/
def idsData (l : List Bytes) : Bytes := be64 l.length ++ idsBody l

def encode : TVal → Option Item
  | .nilv => none
  | .bytes b => some ⟨str "[]byte", b⟩
  | .bigint neg a => some ⟨str "big.Int", gobBigInt neg a⟩
  | .id b => some ⟨str "ID", b⟩
  | .ids l => some ⟨str "IDSlice", idsData l⟩
  | .rid b => some ⟨str "RID", b⟩
  | .thr n => some ⟨str "Threshold", be32 n⟩
  | .rnd n => some ⟨str "Round Number", be64 n⟩
  | .sigmsgNil => some ⟨str "Empty Message", []⟩
  | .sigmsg b => some ⟨str "Signature Message", b⟩
  | .bwd d b => some ⟨d, b⟩
  | .com b => some ⟨str "Commitment", b⟩
  | .decom b => some ⟨str "Decommitment", b⟩
  | .point e => some ⟨str "*curve.Secp256k1Point", e⟩
  | .scalar e => some ⟨str "*curve.Secp256k1Scalar", e⟩
  | .ct v => some ⟨str "Paillier Ciphertext", beN 512 v⟩
  | .pk n => some ⟨str "Paillier PublicKey", natBytes n⟩
  | .ped n s t => some ⟨str "Pedersen Parameters", beN 256 n ++ beN 256 s ++ beN 256 t⟩
  | .elg l m => some ⟨str "ElGamal Ciphertext", l ++ m⟩
  | .opaque d b => some ⟨d, b⟩

/-- `WriteAny(v₁,…,vₖ)`: items are written left to right; the first failing value stops the
    call with an error, the ones before it stay written (this is what the Go loop does). -/
def encodeAll : List TVal → List Item × Bool
  | [] => ([], true)
  | v :: vs =>
    match encode v with
    | none => ([], false)
    | some i => let (is, ok) := encodeAll vs; (i :: is, ok)

end Mps

namespace Mps

/-- constructors whose domain tag is fixed by the Go type (everything except the two
    "bring your own domain" wrappers) -/
def TVal.fixed : TVal → Bool
  | .bwd _ _ => false
  | .opaque _ _ => false
  | _ => true

def maxLen : Nat := 2 ^ 64

/-- validity domain of a typed value: what the Go types can hold -/
def TVal.WF : TVal → Prop
  | .nilv => True
  | .bytes b => b.length < maxLen
  | .bigint neg a => (neg = true → a ≠ 0) ∧ (gobBigInt neg a).length < maxLen
  | .id b => b ≠ [] ∧ b.length < maxLen
  | .ids l => l.length < maxLen ∧ (∀ i ∈ l, i.length < maxLen) ∧ (idsData l).length < maxLen
  | .rid b => b.length < maxLen
  | .thr n => n < 256 ^ 4
  | .rnd n => n < 256 ^ 8
  | .sigmsgNil => True
  | .sigmsg b => b.length < maxLen
  | .bwd d b => d.length < maxLen ∧ b.length < maxLen
  | .com b => b.length < maxLen
  | .decom b => b.length < maxLen
  | .point e => e.length = 33
  | .scalar e => e.length = 32
  | .ct v => v < 256 ^ 512
  | .pk n => (natBytes n).length < maxLen
  | .ped n s t => n < 256 ^ 256 ∧ s < 256 ^ 256 ∧ t < 256 ^ 256
  | .elg l m => l.length = 33 ∧ m.length = 33
  | .opaque d b => d.length < maxLen ∧ b.length < maxLen

/-- Semantic identity used by the correspondence oracle: two fixed-domain values are the same
    iff they are equal as values; as soon as a caller-chosen domain is involved the identity
    is (domain, bytes) — a `BytesWithDomain{"ID", x}` *is* an `ID x` by construction. -/
def semEq (a b : TVal) : Bool :=
  if a.fixed && b.fixed then decide (a = b) else decide (encode a = encode b)

def semEqList : List TVal → List TVal → Bool
  | [], [] => true
  | a :: as, b :: bs => semEq a b && semEqList as bs
  | _, _ => false

end Mps
