import Mps.Frame
/-
  M1: the typed values accepted by `hash.Hash.WriteAny` and the (domain, data) pair each one is
  turned into. One constructor per Go type that reaches the transcript hash. `none` models the
  error return of `WriteAny` (nothing is written for that value).
-/
namespace Mps

inductive TVal where
  | bytes   (b : Option Bytes)                 -- []byte (nil ⇒ error)
  | bigint  (v : Option (Bool × Nat))          -- *big.Int: (negative?, |v|); Gob encoding
  | id      (b : Bytes)                        -- party.ID ("" ⇒ error)
  | ids     (l : Option (List Bytes))          -- party.IDSlice
  | rid     (b : Option Bytes)                 -- types.RID
  | thr     (n : Nat)                          -- types.ThresholdWrapper (uint32)
  | rnd     (n : Nat)                          -- round.Number (uint16, written as uint64)
  | sigmsg  (b : Option Bytes)                 -- types.SigningMessage (nil ⇒ other domain)
  | bwd     (dom : Bytes) (b : Option Bytes)   -- hash.BytesWithDomain
  | com     (b : Option Bytes)                 -- hash.Commitment
  | decom   (b : Option Bytes)                 -- hash.Decommitment
  | point   (enc : Bytes)                      -- curve.Point via BinaryMarshaler (33 bytes)
  | scalar  (enc : Bytes)                      -- curve.Scalar via BinaryMarshaler (32 bytes)
  | ct      (v : Nat)                          -- *paillier.Ciphertext: 512-byte big endian
  | pk      (n : Nat)                          -- *paillier.PublicKey: minimal big endian of N
  | ped     (n s t : Nat)                      -- *pedersen.Parameters: 3 × 256 bytes
  | elg     (l m : Bytes)                      -- *elgamal.Ciphertext: two encoded points
  | opaque  (dom : Bytes) (data : Bytes)       -- any other WriterToWithDomain (Exponent, Config …): bytes given
  deriving DecidableEq, Repr, Inhabited

/-- Domain literal of every fixed-domain Go type, as used by `encode` below.
    `MpsProps.C19` proves this table equal to the one regenerated from the source. -/
def typeDomains : List (String × String) :=
  [ ("Commitment", "Commitment"), ("Decommitment", "Decommitment"),
    ("ID", "ID"), ("IDSlice", "IDSlice"), ("RID", "RID"), ("ThresholdWrapper", "Threshold"),
    ("Number", "Round Number"), ("SigningMessage", "Empty Message|Signature Message"),
    ("PublicKey", "Paillier PublicKey"), ("Ciphertext", "Paillier Ciphertext|ElGamal Ciphertext"),
    ("Parameters", "Pedersen Parameters"), ("Exponent", "Exponent"),
    ("Config", "CMP Config"), ("Public", "Public Data"),
    ("messageHash", "messageHash"), ("BytesWithDomain", "<field TheDomain>") ]

def gobBigInt (neg : Bool) (abs : Nat) : Bytes :=
  UInt8.ofNat (2 + (if neg then 1 else 0)) :: natBytes abs

/-- `party.IDSlice.WriteTo` AS THE CODE STANDS: count, then the ids concatenated. -/
def idsData (l : List Bytes) : Bytes := be64 l.length ++ l.flatten

def encode : TVal → Option Item
  | .bytes none => none
  | .bytes (some b) => some ⟨str "[]byte", b⟩
  | .bigint none => none
  | .bigint (some (neg, a)) => some ⟨str "big.Int", gobBigInt neg a⟩
  | .id b => if b = [] then none else some ⟨str "ID", b⟩
  | .ids none => none
  | .ids (some l) => some ⟨str "IDSlice", idsData l⟩
  | .rid none => none
  | .rid (some b) => some ⟨str "RID", b⟩
  | .thr n => some ⟨str "Threshold", be32 n⟩
  | .rnd n => some ⟨str "Round Number", be64 n⟩
  | .sigmsg none => some ⟨str "Empty Message", []⟩
  | .sigmsg (some b) => some ⟨str "Signature Message", b⟩
  | .bwd _ none => none
  | .bwd d (some b) => some ⟨d, b⟩
  | .com none => none
  | .com (some b) => some ⟨str "Commitment", b⟩
  | .decom none => none
  | .decom (some b) => some ⟨str "Decommitment", b⟩
  | .point e => some ⟨str "*curve.Secp256k1Point", e⟩
  | .scalar e => some ⟨str "*curve.Secp256k1Scalar", e⟩
  | .ct v => some ⟨str "Paillier Ciphertext", beN 512 v⟩
  | .pk n => some ⟨str "Paillier PublicKey", natBytes n⟩
  | .ped n s t => some ⟨str "Pedersen Parameters", beN 256 n ++ beN 256 s ++ beN 256 t⟩
  | .elg l m => some ⟨str "ElGamal Ciphertext", l ++ m⟩
  | .opaque d b => some ⟨d, b⟩

/-- `WriteAny(v₁,…,vₖ)`: items are written left to right; the first failing value stops the
    call with an error, the ones before it stay written (this is what the Go loop does). -/
def encodeAll : List TVal → List Item × Bool
  | [] => ([], true)
  | v :: vs =>
    match encode v with
    | none => ([], false)
    | some i => let (is, ok) := encodeAll vs; (i :: is, ok)

end Mps

namespace Mps
/-- Semantic identity of a typed value: what must be equal for two values to be "the same
    thing written to the transcript". Single-string payloads collapse to (domain, bytes) — a
    `BytesWithDomain{"ID", x}` *is* an `ID x` by construction — while structured payloads
    (the id list) keep their structure. `encode_injective` (MpsProps.C19) says equal encodings
    imply equal `canon`. -/
def canon : TVal → TVal
  | .ids (some l) => .ids (some l)
  | v => match encode v with
    | some i => .opaque i.dom i.data
    | none => v
end Mps
