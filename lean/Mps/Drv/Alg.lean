import Mps.Json
import Mps.Algebra
/- Driver side of suite `alg`: the transcriptions of `Mps/Algebra.lean` executed with `secpOps`. -/
namespace Mps.Drv.Alg
open Lean Mps Mps.Alg

def O := secpOps

def scHex (v : Nat) : String := toHex (beN 32 v)
def ptHex : Secp.Pt → String
  | .inf => "inf"
  | P => toHex (Secp.encode P)
def jsc (j : Json) (k : String) : Nat := unbe (jhex j k)
def ptOfStr (s : String) : Secp.Pt :=
  if s == "inf" then .inf else ((ofHex s).bind Secp.decodeStrict).getD .inf
def jpt (j : Json) (k : String) : Secp.Pt := ptOfStr (jstr j k)
def jstrs (j : Json) (k : String) : List String := (jarr j k).map fun x => x.getStr?.toOption.getD ""
def jids (j : Json) (k : String) : List Bytes := (jstrs j k).map fun s => (ofHex s).getD []
def jscs (j : Json) (k : String) : List Nat := (jstrs j k).map fun s => unbe ((ofHex s).getD [])
def jpts (j : Json) (k : String) : List Secp.Pt := (jstrs j k).map ptOfStr
def panic : Json := jobj [("outcome", "PANIC")]
def strs (l : List String) : Json := Json.arr (l.map Json.str).toArray
def optChain (j : Json) (k : String) : Option Bytes := jhexOpt j k
def chainJson : Option Bytes → Json
  | none => Json.null
  | some b => Json.str (toHex b)

def coefObj (dom sub : List Bytes) : Json :=
  Json.mkObj ((lagrangeFor O dom sub idScalar).map fun (id, c) => (toHex id, Json.str (scHex c)))

def parseExp (j : Json) : Exponent Secp.Pt := ⟨jbool j "c", jpts j "p"⟩
def expFields (e : Exponent Secp.Pt) : List (String × Json) :=
  [("isConstant", Json.bool e.isConstant), ("coeffs", strs (e.coeffs.map ptHex))]

/-- `ecdsa.Signature.Verify(X, hash)` -/
def goVerify (X R : Secp.Pt) (s : Nat) (h : Bytes) : Bool :=
  ecdsaVerify O X R (fromHash h) (xScalar R) s

def deriveChain := deriveChainRule

def bip32Json (pub : Secp.Pt) (chain : Bytes) (i : Nat) : Json :=
  match bip32DeriveScalar pub chain i with
  | .hardened => panic
  | .badIndex => jobj [("outcome", "badIndex")]
  | .ok sc ck =>
    -- the child key is computed from the STANDARD's CKDpub (independent of `DeriveScalar`'s return values)
    let child := match ckdPub pub chain i with
      | some (K, _) => ptHex K
      | none => "invalid"
    jobj [("outcome", "ok"), ("scalar", scHex sc), ("chain", toHex ck), ("child", child)]

def handle (op : String) (inp : Json) : Json :=
  match op with
  | "idScalar" => jobj [("x", scHex (idScalar (jhex inp "id")))]
  | "fromHash" => jobj [("m", scHex (fromHash (jhex inp "h")))]
  | "lagrange" =>
    let ids := jids inp "ids"
    jobj [("coef", coefObj ids ids)]
  | "lagrangeFor" =>
    let ids := jids inp "ids"
    let sub := jids inp "subset"
    -- `interpolationDomain[j]` of an id outside the domain is a nil interface: the first method call panics
    if sub.all (fun j => ids.contains j) then jobj [("coef", coefObj ids sub)] else panic
  | "lagrangeSingle" =>
    let ids := jids inp "ids"
    jobj [("c", scHex (lagrangeCoeff O ids idScalar (jhex inp "j")))]
  | "polyEval" =>
    match evalPolyChecked O (jscs inp "coeffs") (jsc inp "x") with
    | none => panic
    | some y => jobj [("y", scHex y)]
  | "expOfPoly" =>
    let e : Exponent Secp.Pt := expOfPoly O (jscs inp "coeffs")
    jobj (expFields e ++ [("degree", Json.num (JsonNumber.fromInt (expDegree e))),
      ("constant", ptHex (expConstant O e)), ("y", ptHex (evalExp O e (jsc inp "x")))])
  | "expEval" =>
    let e := parseExp (jget inp "e")
    let x := jsc inp "x"
    jobj [("y", ptHex (evalExp O e x)), ("classic", ptHex (evalExpClassic O e x)),
      ("degree", Json.num (JsonNumber.fromInt (expDegree e)))]
  | "expSum" =>
    let es := (jarr inp "polys").map parseExp
    if es.isEmpty then panic else
    match sumExp O es with
    | none => jobj [("err", true)]
    | some e => jobj (expFields e ++ [("err", Json.bool false)])
  | "presigOnline" =>
    let ks := jscs inp "ks"
    let chis := jscs inp "chis"
    let X := jpt inp "X"
    let R := jpt inp "R"
    let h := jhex inp "h"
    let tamper := jint inp "tamper"
    let m := fromHash h
    let r := xScalar R
    let sigmas := (ks.zip chis).zipIdx.map fun ((k, chi), i) =>
      let s := presigSigmaShare O m k r chi
      if (i : Int) = tamper then O.add s 1 else s
    let s := ecdsaAssemble O sigmas
    let culprits := ((ks.zip chis).zip sigmas).zipIdx.filterMap fun (((k, chi), sg), i) =>
      if decide (presigShareCheck O sg m r R (O.smul k R) (presignS O chi R)) then none
      else some (toHex [UInt8.ofNat (97 + i)])
    jobj [("sigmas", strs (sigmas.map scHex)), ("s", scHex s), ("ok", goVerify X R s h), ("culprits", strs culprits)]
  | "verify" => jobj [("ok", goVerify (jpt inp "X") (jpt inp "R") (jsc inp "s") (jhex inp "h"))]
  | "cmpPublicPoint" =>
    let pubs := (jarr inp "pubs").map fun p =>
      match p.getArr? with
      | .ok a => ((ofHex ((a[0]?.getD Json.null).getStr?.toOption.getD "")).getD [], ptOfStr ((a[1]?.getD Json.null).getStr?.toOption.getD ""))
      | .error _ => ([], Secp.Pt.inf)
    let ids := pubs.map (·.1)
    let X := fun id => ((pubs.find? fun p => p.1 == id).map (·.2)).getD .inf
    jobj [("pk", ptHex (cmpPublicPoint O ids idScalar X))]
  | "bip32" | "bip32vec" =>
    let r := bip32Json (jpt inp "pub") (jhex inp "chain") (jnat inp "i")
    if op == "bip32vec" then
      match r with
      | Json.obj _ =>
        r.setObjVal! "match" (Json.bool (jstr r "child" == jstr inp "child" && jstr r "chain" == jstr inp "childChain"))
      | _ => r
    else r
  | "derive" =>
    let kind := jstr inp "kind"
    let share := jsc inp "share"
    let pk := jpt inp "pk"
    let pubs := (jarr inp "pubs").map fun p =>
      match p.getArr? with
      | .ok a => ((ofHex ((a[0]?.getD Json.null).getStr?.toOption.getD "")).getD [], ptOfStr ((a[1]?.getD Json.null).getStr?.toOption.getD ""))
      | .error _ => ([], Secp.Pt.inf)
    let ids := pubs.map (·.1)
    let X := fun id => ((pubs.find? fun p => p.1 == id).map (·.2)).getD .inf
    let chain := optChain inp "chain"
    -- the key the BIP-32 step is fed with: cmp recomputes it from the table, frost uses the stored key
    let parent := if kind == "cmp" then cmpPublicPoint O ids idScalar X else pk
    let step : Option (Nat × Option Bytes) :=
      if jbool inp "bip32" then
        match bip32DeriveScalar parent (chain.getD []) (jnat inp "i") with
        | .ok sc ck => some (sc, some ck)
        | _ => none
      else some (jsc inp "adjust", optChain inp "newChain")
    match step with
    | none => jobj [("err", true)]
    | some (a, newChain) =>
      match deriveChain chain newChain with
      | none => jobj [("err", true)]
      | some ck =>
        let pubs' := pubs.map fun (id, P) => (id, derivePublic O P a)
        let X' := fun id => ((pubs'.find? fun p => p.1 == id).map (·.2)).getD .inf
        let pk' := if kind == "cmp" then cmpPublicPoint O ids idScalar X' else derivePublic O pk a
        jobj [("err", false), ("share", scHex (deriveShare O share a)),
          ("pubs", Json.mkObj (pubs'.map fun (id, P) => (toHex id, Json.str (ptHex P)))),
          ("pk", ptHex pk'), ("chain", toHex ck), ("oldShare", scHex share),
          -- deriving is a pure function of the parent: a sibling derived afterwards from the same parent is the same child
          ("valid", true)]
  | "doernerDerive" =>
    let pk := jpt inp "pk"
    let chain := jhex inp "chain"
    let cR : DoernerCfg Nat Secp.Pt := ⟨jsc inp "skR", pk, some chain⟩
    let cS : DoernerCfg Nat Secp.Pt := ⟨jsc inp "skS", pk, some chain⟩
    let step : Option (Nat × Option Bytes) :=
      if jbool inp "bip32" then
        match bip32DeriveScalar pk chain (jnat inp "i") with
        | .ok sc ck => some (sc, some ck)
        | _ => none
      else some (jsc inp "adjust", optChain inp "newChain")
    match step with
    | none => jobj [("err", true)]
    | some (a, newChain) =>
      match deriveChain (some chain) newChain with
      | none => jobj [("err", true)]
      | some ck =>
        let dR := doernerDeriveReceiver O cR a ck
        let dS := doernerDeriveSender O cS a ck
        -- `valid` is the property-level judgement (C14): the derived additive shares open the derived key —
        -- which must be the prescribed child key parent + a·G — and both configs carry the same 32-byte chain
        -- key. It is evaluated on the model's values (theorem `doerner_derive_is_sharing` says: always true).
        let valid := O.smul (O.add dR.secretShare dS.secretShare) O.base == dR.pub && dR.pub == dS.pub
          && dR.pub == derivePublic O pk a && dR.chainKey == some ck && dS.chainKey == some ck && ck.length == 32
        jobj [("err", false), ("shareR", scHex dR.secretShare), ("shareS", scHex dS.secretShare),
          ("pkR", ptHex dR.pub), ("pkS", ptHex dS.pub), ("chainR", chainJson dR.chainKey), ("chainS", chainJson dS.chainKey),
          ("valid", valid)]
  | "chainKeyXor" => jobj [("chain", toHex (chainKeyOf (jids inp "contribs")))]
  -- suite `algfind` (session-level reproducers): the model answers what property C14 / C08 PRESCRIBE of a real run
  | "findFrostChainKey" =>
    jobj [("completed", true), ("chainKeyLens", Json.arr ((List.replicate (jnat inp "n") (Json.num 32)).toArray)),
      ("chainKeyOk", true), ("deriveChildSucceeds", true)]
  | "findDoernerDerive" =>
    jobj [("signBefore", true), ("deriveErr", false), ("sharesOpenKey", true), ("chainKeyKept", true), ("signAfter", true),
      ("deriveAgainOk", true)]
  | "findDoernerRefresh" =>
    -- (a Doerner refresh draws a NEW chain key: documented behaviour, not judged)
    jobj [("keyKept", true), ("shareChanged", true), ("signAfter", true), ("chainKeysAgree", true)]
  | _ => jobj [("error", "unknown op")]

end Mps.Drv.Alg
