import Mps.Json
import Mps.Codec
/- Driver side of suite `codec` (C15 / C05): judges what the real decoders returned. -/
namespace Mps.Drv.Codec
open Lean Mps Mps.Codec

def rulesOf (d : Json) : List Bool :=
  match jget d "rules" with
  | .obj kvs => kvs.toList.map fun kv => kv.2.getBool?.toOption.getD false
  | _ => [false]

def descJudge (d : Json) : Bool :=
  descOk (rulesOf d) (jint d "thr") ((jarr d "ids").map fun x => (ofHex (x.getStr?.toOption.getD "")).getD []) (jhex d "self")

def parseFV (s : String) : FV :=
  match s with
  | "good" => .good | "absent" => .absent | "null" => .null | _ => .bad

def parsePub (j : Json) : PubTree :=
  { id := jhex j "id", ecdsa := parseFV (jstr j "ECDSA"), elgamal := parseFV (jstr j "ElGamal"),
    n := parseFV (jstr j "N"), s := parseFV (jstr j "S"), t := parseFV (jstr j "T") }

def parseCmpTree (j : Json) : CmpTree :=
  { topNull := jbool j "topNull", id := jhex j "id", thr := jint j "thr",
    ecdsa := parseFV (jstr j "ECDSA"), elgamal := parseFV (jstr j "ElGamal"), p := parseFV (jstr j "P"), q := parseFV (jstr j "Q"),
    rid := parseFV (jstr j "RID"), chainKey := parseFV (jstr j "ChainKey"), pub := (jarr j "pub").map parsePub }

def outStr : Start.Out → String
  | .ok => "ok" | .err => "err" | .crash => "crash"

def handle (op : String) (inp : Json) : Json :=
  -- the predictive differential of the cmp restore model (suite `cmptree`): the guarded decoder's decision
  if op == "cmptree" then jobj [("outcome", outStr (cmpRestore true (parseCmpTree (jget inp "tree"))))] else
  let o := jget inp "obs"
  if o.isNull then jobj [("ok", false), ("why", "no observation: the model has no such outcome")] else
  match op with
  | "roundtrip" =>
    -- the real object: must restore, satisfy the rules, re-encode to the same item and work in a follow-up session
    jobj [("ok", jstr o "outcome" == "decoded" && descJudge (jget o "desc") && !jbool o "silent" && jbool o "same" && jstr o "used" == "ok")]
  | "restore" =>
    -- a corrupted encoding: an error, or an object that satisfies the rules and is not the untouched template
    jobj [("ok", jstr o "outcome" == "error" || (jstr o "outcome" == "decoded" && descJudge (jget o "desc") && !jbool o "silent"))]
  | _ => jobj [("error", "unknown op")]

end Mps.Drv.Codec
