import Mps.Json
import Mps.Handler
import Mps.Session
import Mps.Blake3
/- Driver side of suite `handler`: one model `State` per real handler (keyed by "sid"). -/
namespace Mps.Drv.Handler
open Lean Mps Mps.Handler

def H (b : Bytes) : Bytes := Blake3.hashXof b 64

def optHexJ (b : Option Bytes) : Json := match b with | none => Json.null | some x => toHex x

def parseMsg (j : Json) : Msg :=
  let d := jget j "dec"
  { ssid := jhexOpt j "ssid", frm := jhex j "from", to := jhex j "to", proto := jhex j "proto", rnd := jnat j "rnd",
    data := jhexOpt j "data", bcast := jbool j "bcast", bv := jhexOpt j "bv",
    dec := if d.isNull then none else some ⟨jnat d "v", jnat d "f"⟩ }

def msgJ (m : Msg) : Json :=
  jobj [("ssid", optHexJ m.ssid), ("from", toHex m.frm), ("to", toHex m.to), ("proto", toHex m.proto),
        ("rnd", m.rnd), ("data", optHexJ m.data), ("bcast", m.bcast), ("bv", optHexJ m.bv),
        ("dec", match m.dec with | none => Json.null | some c => jobj [("v", c.v), ("f", c.f)])]

def parseScript (j : Json) : Script :=
  let ids := (jarr j "ids").map fun x => (ofHex (x.getStr?.toOption.getD "")).getD []
  let sidHex := jstr j "sessionID"
  let params : SessionParams :=
    { sid := if sidHex == "" then none else some ((ofHex sidHex).getD []), proto := str (jstr j "proto"),
      group := some (str "secp256k1"), ids := ids, thr := jnat j "threshold", aux := [] }
  { ids := ids, self := jhex j "self", final := jnat j "final",
    rounds := (jarr j "rounds").map fun r => ⟨jnat r "num", jbool r "recvB", jbool r "recvP"⟩,
    proto := str (jstr j "proto"), ssid := ssidWith H params, sess := sessionItems params,
    finErrAt := jnat j "finErrAt" }

def termJ (s : State) : String :=
  match s.result, s.err with
  | some v, _ => s!"result:{v}"
  | none, none => "running"
  | none, some k =>
    let cls := match k with
      | .msgFail _ => "msgFail" | .peerAbort _ => "peerAbort" | .echoMismatch => "echoMismatch"
      | .finalizeErr => "finalizeErr" | .protoAbort _ => "protoAbort" | .stopped => "stopped"
    s!"err:{cls}:" ++ ",".intercalate ((culpritsOf s.sc k).map toHex)

/-- what one call showed: new messages (notices apart), closed-ness, Result() -/
def observe (before after : State) : List (String × Json) :=
  let new := after.out.drop before.out.length
  let emitted := new.filter (·.rnd != 0)
  let notices := (new.filter (·.rnd == 0)).length
  [("out", Json.arr (emitted.map msgJ).toArray), ("closed", decide (after.closes > 0)),
   ("notice", Json.num notices),
   ("term", termJ after)]

/-- in-order run of an all-honest session of the model: every party's messages are delivered to
    every other party, round after round (re-deliveries are no-ops) -/
def simulate (scs : List Script) : List State :=
  let sts := scs.map (init H)
  let pass (sts : List State) : List State :=
    sts.map fun s => sts.foldl (fun acc t => t.out.foldl (fun a m => accept H a m) acc) s
  let rec go (fuel : Nat) (sts : List State) : List State :=
    match fuel with
    | 0 => sts
    | f + 1 => go f (pass sts)
  go ((scs.headD default).rounds.length + 1) sts

/-! ### replay order

  Go's `finalize` replays the queued messages of the round it enters by ranging over a MAP
  (`h.broadcast[number]` / `h.messages[number]`): the order is unspecified. `Mps.Handler.replayQueued`
  fixes id order. When two queued messages from different senders fail in different ways, which failure ends the
  session depends on that order; every order is a behaviour of the code. The `…O` functions below are the model's
  `accept` with the replay order as a parameter (`acceptO … s.sc.ids = accept`, checked by `#guard`-free
  definitional unfolding in MpsProps.C17 `acceptO_ids`); the driver accepts the observed verdict if SOME order
  produces it, and continues from that state. -/

def replayQueuedO (order : List Bytes) (s : State) : State × Option Fail :=
  order.foldl (replayStep (curSpec s) s.cur) (s, none)

def finalizeStepO (H : Bytes → Bytes) (order : List Bytes) (s : State) : Step :=
  let s1 := fillBh H s
  if !receivedAllB H s then .halt s1
  else if !checkBroadcastHash s1 then .halt (abort s1 (some .echoMismatch))
  else match protoFinalize s1 with
    | .error => .halt (abort s1 (some .finalizeErr))
    | .abortRound cs =>
      if s1.reached.contains 0 then .halt s1 else .halt (abort (enter0 s1) (some (.protoAbort cs)))
    | .output v =>
      if s1.reached.contains 0 then .halt s1 else .halt (abort { enter0 s1 with result := some v } none)
    | .round i nx =>
      let s3 := sendAll s1 (emitFor s1 nx)
      if s3.reached.contains nx.num then .halt s3
      else match replayQueuedO order (enter s3 i nx) with
        | (s5, some f) => .halt (abort s5 (some (errOf f)))
        | (s5, none) => .more s5

def finalizeO (H : Bytes → Bytes) (order : List Bytes) : Nat → State → State
  | 0, s => s
  | fuel + 1, s =>
    match finalizeStepO H order s with
    | .halt s' => s'
    | .more s' => finalizeO H order fuel s'

def acceptStoredO (H : Bytes → Bytes) (order : List Bytes) (s1 : State) (m : Msg) : State :=
  if s1.cur != m.rnd then s1
  else match (if m.bcast then verifyBroadcastMessage s1 m else verifyMessage s1 m) with
    | .bad => abort s1 (some (.msgFail m.frm))
    | .echo => abort s1 (some .echoMismatch)
    | .ok s2 => finalizeO H order (s2.sc.rounds.length + 1) s2

def acceptO (H : Bytes → Bytes) (order : List Bytes) (s : State) (m : Msg) : State :=
  if !canAccept s m || terminal s || duplicate s m then s
  else if m.rnd == 0 then abort s (some (.peerAbort m.frm))
  else acceptStoredO H order (store s m) m

def perms : List Bytes → List (List Bytes)
  | [] => [[]]
  | x :: xs => (perms xs).flatMap fun p => (List.range (p.length + 1)).map fun i => p.take i ++ x :: p.drop i

abbrev Store := List (String × State)

def getS (st : Store) (sid : String) : Option State := (st.find? (·.1 == sid)).map (·.2)
def putS (st : Store) (sid : String) (s : State) : Store := (sid, s) :: st.filter (·.1 != sid)

def handle (st : Store) (op : String) (inp : Json) : Store × Json :=
  let sid := jstr inp "sid"
  match op with
  | "init" =>
    let scj := jget inp "script"
    let sc := parseScript scj
    if !newSessionOk sc.ids sc.self (jint scj "threshold") then (st, jobj [("outcome", "err")])
    else
      let s := init H sc
      -- a fresh handler keeps only recent sessions in the store
      let s0 : State := { s with out := [] }
      (putS (st.take 64) sid s, jobj (observe s0 s ++ [("ssid", Json.str (toHex sc.ssid))]))
  | "accept" =>
    match getS st sid with
    | none => (st, jobj [("error", "unknown sid")])
    | some s =>
      let m := parseMsg (jget inp "msg")
      let can := canAccept s m
      let s0 := accept H s m
      -- the observed verdict, when the harness passes it: accepted if some replay order of the code produces it
      let obs := jstr inp "obsTerm"
      let s' :=
        if obs == "" || termJ s0 == obs || s0.err.isNone || s.sc.ids.length > 6 then s0
        else match (perms s.sc.ids).find? fun o => termJ (acceptO H o s m) == obs with
          | some o => acceptO H o s m
          | none => s0
      (putS st sid s', jobj (observe s s' ++ [("can", Json.bool can)]))
  | "stop" =>
    match getS st sid with
    | none => (st, jobj [("error", "unknown sid")])
    | some s =>
      let s' := stop s
      (putS st sid s', jobj (observe s s'))
  | "views" =>
    -- C06 judged on the observation: two honest parties that both completed hold identical views of every
    -- broadcast round that has a successor round (whose messages carry the echo hash)
    let parties := jarr inp "parties"
    let rounds := (jarr inp "rounds").map fun r => (jnat r "num", jbool r "recvB")
    let cheater := jint inp "cheater"
    let final := jnat inp "final"
    let protectedRounds := (rounds.zipIdx.filter fun ((num, b), i) =>
        b && 2 ≤ num && num ≤ final &&
        (match rounds[i + 1]? with | some (n2, _) => n2 == num + 1 && n2 ≤ final | none => false)).map (·.1.1)
    let viewOf (p : Json) (r : Nat) : List (String × String) :=
      match jget p "views" with
      | .obj kvs => (kvs.toList.filter fun kv => kv.1.startsWith s!"{r}|").map fun kv => (kv.1, kv.2.getStr?.toOption.getD "")
      | _ => []
    let completed (p : Json) : Bool := (jstr p "term").startsWith "result:"
    let ok := parties.zipIdx.all fun (p, i) => parties.zipIdx.all fun (q, j) =>
      if (i : Int) == cheater || (j : Int) == cheater || !(completed p && completed q) then true
      else protectedRounds.all fun r =>
        -- same payload from every sender both have heard (a party does not receive its own broadcast)
        (viewOf p r).all fun (k, v) => (viewOf q r).all fun (k', v') => k != k' || v == v'
    (st, jobj [("ok", ok)])
  | "conc" =>
    -- judge an observed concurrent run: expected results come from the in-order run of the model
    let scs := (jarr inp "scripts").map parseScript
    let sts := simulate scs
    let terms := (jarr inp "terms").map fun t => t.getStr?.toOption.getD ""
    let stopper := jint inp "stopper"
    let stopperId := if stopper < 0 then none else (scs.getD stopper.toNat default).ids[stopper.toNat]?
    let okOne (i : Nat) (t : String) : Bool :=
      let exp := termJ (sts.getD i default)
      if t == exp then true
      else match stopperId with
        | none => false
        | some sid =>
          let _ := sid
          if (i : Int) == stopper then t == s!"err:stopped:{toHex sid}"
          else
            -- a peer's abort notice is relayed: whoever forwards it is reported as its origin
            t == "running" ||
            ((scs.getD i default).ids.any fun other => other != (scs.getD i default).self && t == s!"err:peerAbort:{toHex other}")
    (st, jobj [("ok", (terms.zipIdx.all fun (t, i) => okOne i t))])
  | _ => (st, jobj [("error", "unknown op")])

end Mps.Drv.Handler
