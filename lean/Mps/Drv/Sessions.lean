import Mps.Json
import Mps.Judge
/- Driver side of the `sess-*` suites: judges what real protocol sessions returned. -/
namespace Mps.Drv.Sessions
open Lean Mps Mps.Secp Mps.Judge

def jpt (j : Json) (k : String) : Option Pt := decodePt (jhex j k)

def objPairs (j : Json) : List (String × Json) := match j with | .obj kvs => kvs.toList | _ => []

structure Party where
  id    : Bytes
  share : Nat
  pub   : Option Pt
  table : List (Bytes × Option Pt)
  chain : Bytes
  role  : String
  deriving Inhabited

def parseParty (taproot : Bool) (j : Json) : Party :=
  { id := jhex j "id", share := unbe (jhex j "share"),
    pub := if taproot then liftX (unbe (jhex j "xonly")) else jpt j "pub",
    table := ((objPairs (jget j "table")).map fun (k, v) => ((ofHex k).getD [], decodePt ((ofHex (v.getStr?.toOption.getD "")).getD []))),
    chain := jhex j "chain", role := jstr j "role" }

def allEq [BEq α] : List α → Bool
  | [] => true
  | x :: xs => xs.all (· == x)

instance : BEq Pt := ⟨fun a b => decide (a = b)⟩

def sortTable (t : List (Bytes × Option Pt)) : List (Bytes × Option Pt) :=
  t.foldr (fun x acc => let rec ins (x : Bytes × Option Pt) : List (Bytes × Option Pt) → List (Bytes × Option Pt)
    | [] => [x]
    | y :: ys => if bytesLt' y.1 x.1 then y :: ins x ys else x :: y :: ys
    ins x acc) []
where bytesLt' : Bytes → Bytes → Bool
  | [], [] => false
  | [], _ :: _ => true
  | _ :: _, [] => false
  | a :: as, b :: bs => a < b || (a == b && bytesLt' as bs)

/-- C02 conditions on the dumped key material -/
def judgeKeygenWith (requireAll : Bool) (inp : Json) : List String :=
  let kind := jstr inp "kind"
  let n := jnat inp "n"
  let t := jnat inp "t"
  let taproot := kind == "frost-taproot"
  let ps := (jarr inp "parties").map (parseParty taproot)
  let why : List String := []
  let why := if requireAll && ps.length != n then why ++ [s!"only {ps.length} of {n} parties completed"] else why
  if ps.isEmpty then why else
  let pubs := ps.map (·.pub)
  let why := if pubs.any Option.isNone then why ++ ["a public key does not decode"] else why
  let why := if !allEq pubs then why ++ ["parties report different group keys"] else why
  let pub := (pubs.headD none).getD .inf
  if kind == "doerner" then
    let sum := (ps.foldl (fun a p => a + p.share) 0) % q
    let why := if ps.length == 2 && mul sum G != pub then why ++ ["the two secret shares do not add up to the reported public key"] else why
    why
  else
    let tables := ps.map fun p => sortTable p.table
    let why := if !allEq tables then why ++ ["parties report different public-share tables"] else why
    let why := if ps.any (fun p => p.table.any fun e => e.2.isNone) then why ++ ["a table entry does not decode"] else why
    let why := if ps.any (fun p => (p.table.find? fun e => e.1 == p.id).map (·.2) != some (some (mul p.share G)))
               then why ++ ["a party's secret share does not match its own table entry"] else why
    let xs := ps.map fun p => idScalar p.id
    let why := if xs.any (· == 0) || !(xs.eraseDups.length == xs.length) then why ++ ["id scalars not distinct / zero (outside the property's domain)"] else why
    -- every (t+1)-subset reconstructs one secret whose public key is the group key; so do the table entries
    let subsets := if ps.length ≥ t + 1 then choose (t + 1) ps else []
    let tbl := (ps.headD default).table
    let bad := subsets.filter fun S =>
      let sk := reconstruct (S.map fun p => (idScalar p.id, p.share))
      let fromTable := reconstructPt (S.map fun p => (idScalar p.id, ((tbl.find? fun e => e.1 == p.id).bind (·.2)).getD .inf))
      mul sk G != pub || fromTable != pub
    let why := if !bad.isEmpty then why ++ [s!"{bad.length} of {subsets.length} subsets of size t+1 do not reconstruct the group key"] else why
    -- the WHOLE public table is one sharing (it may list more parties than took part, e.g. after a refresh by a subset):
    -- every t+1 of its entries interpolate, in the exponent, to the group key
    let entries := tbl.filterMap fun e => e.2.map fun P => (idScalar e.1, P)
    let tsub := if entries.length ≥ t + 1 && entries.length ≤ 6 then choose (t + 1) entries else []
    let tbad := tsub.filter fun S => reconstructPt S != pub
    let why := if !tbad.isEmpty then why ++ [s!"{tbad.length} of {tsub.length} sets of t+1 table entries do not interpolate to the group key"] else why
    why

def judgeKeygen (inp : Json) : List String := judgeKeygenWith true inp

def judgeChain (inp : Json) : List String :=
  let ps := jarr inp "parties"
  let chains := ps.map fun p => jhex p "chain"
  (if chains.any (·.length != 32) then ["a party's chain key is not 32 bytes"] else [])
  ++ (if !allEq chains then ["parties hold different chain keys"] else [])

/-- C01 conditions on the signatures every signer returned -/
def judgeSign (inp : Json) : List String :=
  let kind := jstr inp "kind"
  let msg := jhex inp "msg"
  let sigs := jarr inp "sigs"
  let nsign := (jarr inp "signers").length
  if !(jget inp "start_error").isNull then ["an honest session could not be started: " ++ jstr inp "start_error"] else
  let why : List String := []
  let why := if jstr inp "expect" == "complete" && sigs.length != nsign
             then why ++ [s!"only {sigs.length} of {nsign} signers completed"] else why
  let why := if jstr inp "expect" == "none" && !sigs.isEmpty
             then why ++ [s!"{sigs.length} signers returned a signature although a signer used retired key material"] else why
  let valid (s : Json) : Bool :=
    if kind == "frost-taproot" then bip340Verify (jhex inp "xonly") msg (jhex s "sig")
    else match jpt inp "pub", jpt s "R" with
      | some Y, some R =>
        if kind == "frost" then schnorrVerify Y msg R (unbe (jhex s "z"))
        else ecdsaVerify Y msg R (unbe (jhex s "s"))
      | _, _ => false
  let why := if sigs.any (fun s => !valid s) then why ++ ["a returned signature does not verify under the independent verifier"] else why
  let bodies := sigs.map fun s => (jstr s "R", jstr s "z", jstr s "s", jstr s "sig")
  let why := if !allEq bodies then why ++ ["signers returned different signatures"] else why
  why

def partyKey (j : Json) : String := (Json.mkObj [("id", jget j "id"), ("share", jget j "share"), ("pub", jget j "pub"),
  ("xonly", jget j "xonly"), ("table", jget j "table"), ("chain", jget j "chain")]).compress

/-- splits of a list into (old part, new part), both non-empty -/
def properSplits (l : List α) : List (List α × List α) :=
  let rec go : List α → List (List α × List α)
    | [] => [([], [])]
    | x :: xs => (go xs).flatMap fun (a, b) => [(x :: a, b), (a, x :: b)]
  (go l).filter fun (a, b) => !a.isEmpty && !b.isEmpty

/-- C08 conditions: before / after a refresh -/
def judgeRefresh (inp : Json) : List String :=
  let kind := jstr inp "kind"
  let t := jnat inp "t"
  let taproot := kind == "frost-taproot"
  let before := (jarr inp "before").map (parseParty taproot)
  let after := (jarr inp "parties").map (parseParty taproot)
  let why := judgeKeygen inp        -- the new material satisfies the key-generation consistency conditions
  let why := if (jarr inp "before").map partyKey != (jarr inp "before_reread").map partyKey
             then why ++ ["the pre-refresh key material objects were modified by the refresh"] else why
  if after.isEmpty || before.isEmpty then why else
  let why := if (before.headD default).pub != (after.headD default).pub then why ++ ["the group public key changed"] else why
  -- with threshold 0 every share IS the secret key (the refresh polynomial is the zero polynomial): it cannot change
  let why := if (t > 0 || kind == "doerner") && (before.zip after).any (fun (b, a) => b.share == a.share)
             then why ++ ["a party's secret share did not change"] else why
  if kind == "doerner" then why else
  -- combining shares of different epochs does not reconstruct the key
  let pub := ((after.headD default).pub).getD .inf
  let pairs := before.zip after
  let bad := (choose (t + 1) pairs).flatMap fun S =>
    (properSplits S).filter fun (olds, news) =>
      let pts := olds.map (fun (b, _) => (idScalar b.id, b.share)) ++ news.map (fun (_, a) => (idScalar a.id, a.share))
      mul (reconstruct pts) G == pub
  if !bad.isEmpty then why ++ [s!"{bad.length} mixtures of old and new shares reconstruct the key"] else why

/-- BIP-32 CKDpub: (child key, child chain code) from (parent key, chain code, index) -/
def ckdPub (K : Pt) (chain : Bytes) (i : Nat) : Option (Pt × Bytes) :=
  let I := Sha2.hmacSha512 chain (Secp.encode K ++ be32 i)
  let il := unbe (I.take 32)
  if il ≥ q || il == 0 then none else
  match add K (mul il G) with
  | .inf => none
  | P => some (P, I.drop 32)

/-- C14 conditions on derived material -/
def judgeDerive (inp : Json) : List String :=
  let kind := jstr inp "kind"
  let taproot := kind == "frost-taproot"
  let parent := (jarr inp "parent").map (parseParty taproot)
  let child := (jarr inp "parties").map (parseParty taproot)
  let idx := jnat inp "index"
  if parent.isEmpty then ["no parent material"] else
  let K := ((parent.headD default).pub).getD .inf
  let chain := (parent.headD default).chain
  match ckdPub K chain idx with
  | none =>
    -- the standard declares the index unusable: deriving must fail
    if jstr inp "derive_error" == "" then ["derivation succeeded although BIP-32 declares this index invalid"] else []
  | some (ck, cc) =>
    if jstr inp "derive_error" != "" then ["derivation failed: " ++ jstr inp "derive_error"] else
    let why := judgeKeygen inp ++ judgeChain inp
    let why := if child.any (fun p => p.chain != cc) then why ++ ["derived chain code differs from BIP-32 CKDpub"] else why
    let expectPub := if taproot then (match ck with | .aff x y => if y % 2 == 0 then Pt.aff x y else Secp.neg (.aff x y) | .inf => Pt.inf) else ck
    let why := if child.any (fun p => p.pub != some expectPub) then why ++ ["derived public key differs from BIP-32 CKDpub"] else why
    why

/-- C03 / C04 on a session with one deviating participant: every honest party that finished holds a correct
    result, and no honest party names anybody but the deviating one -/
def judgeTamper (inp : Json) : List String :=
  let cheater := jstr inp "cheater"
  let tampered := !(jarr inp "tampering").isEmpty
  let whyResult :=
    if jstr inp "phase" == "sign" then
      -- any number of honest signers may have finished; each signature must verify and they must agree
      judgeSign (inp.setObjVal! "expect" (Json.str "any"))
    else judgeKeygenWith false inp
  -- only errors the party detected itself count: an abort notice received from a peer is reported as coming from that
  -- peer (who may merely relay it), which the property allows
  let blame := (objPairs (jget inp "blame")).filter fun (_, b) => !((jstr b "err").splitOn "aborted by other party").length > 1
  let named := blame.flatMap fun (who, b) => (jarr b "culprits").map fun c => (who, c.getStr?.toOption.getD "")
  let wrong := named.filter fun (_, c) => c != cheater
  let whyBlame := wrong.map fun (who, c) => s!"honest party {who} names {c}, who did not deviate (the deviating party is {cheater})"
  let whyClean := if !tampered && !(objPairs (jget inp "blame")).isEmpty then ["an all-honest session ended with an error at an honest party"] else []
  -- CMP presigning: the deviating signer is singled out by EVERY honest signer
  let whyIdent :=
    if jbool inp "expect_identified" then
      (jarr inp "honest").filterMap fun h =>
        let hid := h.getStr?.toOption.getD ""
        match (objPairs (jget inp "blame")).find? (·.1 == hid) with
        | none => some s!"honest signer {hid} ended without an error although {cheater} deviated"
        | some (_, b) =>
          let cs := (jarr b "culprits").map fun c => c.getStr?.toOption.getD ""
          if cs == [cheater] then none else some s!"honest signer {hid} names {cs} instead of exactly the deviating signer {cheater}: {jstr b "err"}"
    else []
  -- C09: a proof-carrying broadcast replayed under another sender's name must be refused in the round it arrives in (the
  -- proof is bound to its maker): an honest party that ends with an own verdict names that round
  let ir := jnat inp "impersonated_round"
  let whyImp :=
    if ir == 0 then [] else
      (blame.filter fun (_, b) => (((jstr b "err").splitOn s!"round {ir}:").length ≤ 1)).map fun (who, b) =>
        s!"honest party {who} accepted in round {ir} a proof made by another party (the replayed broadcast was only refused later: {jstr b "err"})"
  -- C06: under equivocation (the honest parties were shown different broadcasts) they do not both finish
  let whyEquiv :=
    if jbool inp "equivocated" && (jarr inp "parties").length ≥ 2 then
      ["two honest parties that were shown different broadcasts of the deviating party both finished"] else []
  -- C04: a PROVABLE deviation (a value that fails its own public verification equation) is attributed: some honest party
  -- reaches a verdict of its own, and every such verdict names exactly the deviating party
  let whyNamed :=
    if jbool inp "expect_named" then
      (if blame.isEmpty then ["no honest party reached a verdict of its own although the deviation is provable"] else []) ++
      (blame.filterMap fun (who, b) =>
        let cs := (jarr b "culprits").map fun c => c.getStr?.toOption.getD ""
        if cs == [cheater] then none
        else some s!"honest party {who} ended with the verdict {cs} instead of exactly the deviating party {cheater}: {jstr b "err"}")
    else []
  -- presignatures: the honest signers that finished hold ONE presignature (same id, same R)
  let pres := (jarr inp "presigs").map fun p => (jstr p "psid", jstr p "R")
  let whyPres := if !allEq pres then ["honest signers finished with different presignatures (id / R differ)"] else []
  -- a value a party is bound to (by an earlier commitment, by a fixed length) was replaced: the honest party does not finish
  let whyBound :=
    if jbool inp "expect_no_result" && !(jarr inp "parties").isEmpty then
      ["an honest party finished although the other party opened a value it was not bound to"] else []
  whyResult ++ whyBlame ++ whyClean ++ whyIdent ++ whyImp ++ whyEquiv ++ whyNamed ++ whyPres ++ whyBound

def verdict (why : List String) : Json :=
  if why.isEmpty then jobj [("ok", true)] else jobj [("ok", false), ("why", Json.arr (why.map Json.str).toArray)]

def handle (op : String) (inp : Json) : Json :=
  match op with
  | "keygen" =>
    let checks := (jarr inp "check").map fun c => c.getStr?.toOption.getD ""
    let why := (if checks.isEmpty || checks.contains "consistent" then judgeKeygen inp else [])
            ++ (if checks.contains "chain" then judgeChain inp else [])
    verdict why
  | "sign" => verdict (judgeSign inp)
  | "refresh" => verdict (judgeRefresh inp)
  | "tamper" => verdict (judgeTamper inp)
  | "derive" => verdict (judgeDerive inp)
  | "keykept" =>
    -- a refresh with a deviating peer: the honest party refuses, or its new key material carries the SAME group key
    verdict ((if !(jget inp "stage").isNull && jstr inp "stage" != "refresh with a shifted sender share"
                then ["an honest preparation step failed: " ++ jstr inp "stage"] else [])
      ++ (if !(jget inp "new_pub").isNull && jstr inp "new_pub" != jstr inp "old_pub"
                then ["the refresh changed the group public key held by the honest party"] else []))
  | _ => jobj [("error", "unknown op")]

end Mps.Drv.Sessions
