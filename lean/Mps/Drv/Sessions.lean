import Mps.Json
import Mps.Judge
/- Driver side of the `sess-*` suites: judges what real protocol sessions returned. -/
namespace Mps.Drv.Sessions
open Lean Mps Mps.Secp Mps.Judge

def jpt (j : Json) (k : String) : Option Pt := decodePt (jhex j k)

def objPairs (j : Json) : List (String × Json) := match j with | .obj kvs => kvs.toList | _ => []

structure Party where
  id    : Bytes
  share : Nat
  pub   : Option Pt
  table : List (Bytes × Option Pt)
  chain : Bytes
  role  : String
  deriving Inhabited

def parseParty (taproot : Bool) (j : Json) : Party :=
  { id := jhex j "id", share := unbe (jhex j "share"),
    pub := if taproot then liftX (unbe (jhex j "xonly")) else jpt j "pub",
    table := ((objPairs (jget j "table")).map fun (k, v) => ((ofHex k).getD [], decodePt ((ofHex (v.getStr?.toOption.getD "")).getD []))),
    chain := jhex j "chain", role := jstr j "role" }

def allEq [BEq α] : List α → Bool
  | [] => true
  | x :: xs => xs.all (· == x)

instance : BEq Pt := ⟨fun a b => decide (a = b)⟩

def sortTable (t : List (Bytes × Option Pt)) : List (Bytes × Option Pt) :=
  t.foldr (fun x acc => let rec ins (x : Bytes × Option Pt) : List (Bytes × Option Pt) → List (Bytes × Option Pt)
    | [] => [x]
    | y :: ys => if bytesLt' y.1 x.1 then y :: ins x ys else x :: y :: ys
    ins x acc) []
where bytesLt' : Bytes → Bytes → Bool
  | [], [] => false
  | [], _ :: _ => true
  | _ :: _, [] => false
  | a :: as, b :: bs => a < b || (a == b && bytesLt' as bs)

/-- C02 conditions on the dumped key material -/
def judgeKeygen (inp : Json) : List String :=
  let kind := jstr inp "kind"
  let n := jnat inp "n"
  let t := jnat inp "t"
  let taproot := kind == "frost-taproot"
  let ps := (jarr inp "parties").map (parseParty taproot)
  let why : List String := []
  let why := if ps.length != n then why ++ [s!"only {ps.length} of {n} parties completed"] else why
  if ps.isEmpty then why else
  let pubs := ps.map (·.pub)
  let why := if pubs.any Option.isNone then why ++ ["a public key does not decode"] else why
  let why := if !allEq pubs then why ++ ["parties report different group keys"] else why
  let pub := (pubs.headD none).getD .inf
  if kind == "doerner" then
    let sum := (ps.foldl (fun a p => a + p.share) 0) % q
    let why := if mul sum G != pub then why ++ ["the two secret shares do not add up to the reported public key"] else why
    why
  else
    let tables := ps.map fun p => sortTable p.table
    let why := if !allEq tables then why ++ ["parties report different public-share tables"] else why
    let why := if ps.any (fun p => p.table.any fun e => e.2.isNone) then why ++ ["a table entry does not decode"] else why
    let why := if ps.any (fun p => (p.table.find? fun e => e.1 == p.id).map (·.2) != some (some (mul p.share G)))
               then why ++ ["a party's secret share does not match its own table entry"] else why
    let xs := ps.map fun p => idScalar p.id
    let why := if xs.any (· == 0) || !(xs.eraseDups.length == xs.length) then why ++ ["id scalars not distinct / zero (outside the property's domain)"] else why
    -- every (t+1)-subset reconstructs one secret whose public key is the group key; so do the table entries
    let subsets := choose (t + 1) ps
    let tbl := (ps.headD default).table
    let bad := subsets.filter fun S =>
      let sk := reconstruct (S.map fun p => (idScalar p.id, p.share))
      let fromTable := reconstructPt (S.map fun p => (idScalar p.id, ((tbl.find? fun e => e.1 == p.id).bind (·.2)).getD .inf))
      mul sk G != pub || fromTable != pub
    let why := if !bad.isEmpty then why ++ [s!"{bad.length} of {subsets.length} subsets of size t+1 do not reconstruct the group key"] else why
    why

def judgeChain (inp : Json) : List String :=
  let ps := jarr inp "parties"
  let chains := ps.map fun p => jhex p "chain"
  (if chains.any (·.length != 32) then ["a party's chain key is not 32 bytes"] else [])
  ++ (if !allEq chains then ["parties hold different chain keys"] else [])

/-- C01 conditions on the signatures every signer returned -/
def judgeSign (inp : Json) : List String :=
  let kind := jstr inp "kind"
  let msg := jhex inp "msg"
  let sigs := jarr inp "sigs"
  let nsign := (jarr inp "signers").length
  if !(jget inp "start_error").isNull then ["an honest session could not be started: " ++ jstr inp "start_error"] else
  let why : List String := []
  let why := if jstr inp "expect" == "complete" && sigs.length != nsign
             then why ++ [s!"only {sigs.length} of {nsign} signers completed"] else why
  let valid (s : Json) : Bool :=
    if kind == "frost-taproot" then bip340Verify (jhex inp "xonly") msg (jhex s "sig")
    else match jpt inp "pub", jpt s "R" with
      | some Y, some R =>
        if kind == "frost" then schnorrVerify Y msg R (unbe (jhex s "z"))
        else ecdsaVerify Y msg R (unbe (jhex s "s"))
      | _, _ => false
  let why := if sigs.any (fun s => !valid s) then why ++ ["a returned signature does not verify under the independent verifier"] else why
  let bodies := sigs.map fun s => (jstr s "R", jstr s "z", jstr s "s", jstr s "sig")
  let why := if !allEq bodies then why ++ ["signers returned different signatures"] else why
  why

def verdict (why : List String) : Json :=
  if why.isEmpty then jobj [("ok", true)] else jobj [("ok", false), ("why", Json.arr (why.map Json.str).toArray)]

def handle (op : String) (inp : Json) : Json :=
  match op with
  | "keygen" =>
    let checks := (jarr inp "check").map fun c => c.getStr?.toOption.getD ""
    let why := (if checks.isEmpty || checks.contains "consistent" then judgeKeygen inp else [])
            ++ (if checks.contains "chain" then judgeChain inp else [])
    verdict why
  | "sign" => verdict (judgeSign inp)
  | _ => jobj [("error", "unknown op")]

end Mps.Drv.Sessions
