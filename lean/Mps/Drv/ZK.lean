import Mps.Json
import Mps.Drv.Frame
import Mps.ZK.Curve
import Mps.ZK.Paillier
import Mps.ZK.Blum
/-
  Driver side of suite `zk` (C10): for every case the harness sends the hash-state prefix (typed items),
  the public statement and the proof (field name ↦ self-describing value); the model recomputes the
  Fiat–Shamir challenge and runs the transcribed verifier.

  Answer: {"ok": accepted?, "panic": would the Go verifier panic?, "e": challenge, "viol": does the
  verdict contradict what the PROPERTY demands for the case's class?}.
-/
namespace Mps.Drv.ZK
open Lean Mps Mps.ZK

def optStr (j : Json) (k : String) : Option String :=
  if jisNull j k then none else some (jstr j k)

def sint (s : String) : Int :=
  let (n, a) := parseSHex s
  if n then -(a : Int) else a

def parseAtom (j : Json) : Val :=
  match jstr j "k" with
  | "nat" => .nat ((optStr j "v").map fun s => (ofHex s).getD [])
  | "int" => .int ((optStr j "v").map sint)
  | "big" => .big ((optStr j "v").map sint)
  | "pt" => .pt ((optStr j "v").map fun s => (ofHex s).getD [])
  | "sc" => .sc ((optStr j "v").map fun s => (ofHex s).getD [])
  | "ct" => .ct ((optStr j "v").map fun s => (parseSHex s).2)
  | "pk" => .pk (jbig j "v")
  | "mod" => .modulus (jbig j "v")
  | "ped" => .ped ⟨jbig j "n", jbig j "s", jbig j "t"⟩
  | "elg" => .elg (jhex j "l") (jhex j "m")
  | "bool" => .bool (jbool j "v")
  | _ => .missing

/-- lists nest at most twice (zkmod: list of responses, each a list of four atoms) -/
def parseVal1 (j : Json) : Val :=
  if jstr j "k" == "list" then .list ((jarr j "v").map parseAtom) else parseAtom j
def parseVal (j : Json) : Val :=
  if jstr j "k" == "list" then .list ((jarr j "v").map parseVal1) else parseAtom j

def parseRec (j : Json) : Rec :=
  match j.getObj? with
  | .ok o => o.toList.map fun (k, v) => (k, parseVal v)
  | .error _ => []

def prefixItems (inp : Json) : List Item :=
  (Mps.Drv.Frame.writeEach (Mps.Drv.Frame.parseSeq inp "prefix")).1

def showOpt {α} (f : α → String) : Except String (Option α) → String
  | .error _ => "panic"
  | .ok none => "err"
  | .ok (some a) => f a

def bits (l : List Bool) : String := String.ofList (l.map fun b => if b then '1' else '0')

/-- (verdict, challenge rendering) of system `sys` -/
def run (sys : String) (pre : List Item) (pub prf : Rec) : Verdict × String :=
  match sys with
  | "sch" => (Sch.verify pre pub prf, showOpt nhex (Sch.challenge pre pub prf))
  | "log" => (Log.verify pre pub prf, showOpt nhex (Log.challenge pre pub prf))
  | "elog" => (Elog.verify pre pub prf, showOpt nhex (Elog.challenge pre pub prf))
  | "enc" => (Enc.verify pre pub prf, showOpt shex (Enc.challenge pre pub prf))
  | "logstar" => (Logstar.verify pre pub prf, showOpt shex (Logstar.challenge pre pub prf))
  | "affg" => (Affg.verify pre pub prf, showOpt shex (Affg.challenge pre pub prf))
  | "affp" => (Affp.verify pre pub prf, showOpt shex (Affp.challenge pre pub prf))
  | "encelg" => (Encelg.verify pre pub prf, showOpt shex (Encelg.challenge pre pub prf))
  | "dec" => (Dec.verify pre pub prf, showOpt shex (Dec.challenge pre pub prf))
  | "mul" => (Mul.verify pre pub prf, showOpt shex (Mul.challenge pre pub prf))
  | "mulstar" => (Mulstar.verify pre pub prf, showOpt shex (Mulstar.challenge pre pub prf))
  | "nth" => (Nth.verify pre pub prf, showOpt shex (Nth.challenge pre pub prf))
  | "fac" => (Fac.verify pre pub prf, showOpt shex (Fac.challenge pre pub prf))
  | "prm" => (Prm.verify pre pub prf, showOpt bits (Prm.challenge pre pub prf))
  | "mod" => (Mod.verify pre pub prf, showOpt (fun ys => nhex (ys.foldl (· + ·) 0)) (Mod.challenge pre pub prf))
  | _ => (.ok false, "unknown system")

/-- what the property demands of a case class: `some true` accept, `some false` reject, `none` nothing -/
def demand (cls : String) : Option Bool :=
  match cls with
  | "honest" => some true
  | "stmt" | "ctx" | "commit" | "resp" | "splice" | "range" | "malformed" => some false
  | _ => none

def handle (op : String) (inp : Json) : Json :=
  match op with
  | "selftest" => jobj [("ok", Mps.ZK.selfTest)]
  | "wire" =>
    -- bytes from the network decoded into the protocol's empty proof value and verified: the property demands
    -- acceptance of the unmodified honest proof and a refusal WITHOUT PANIC of everything else
    jobj [("ok", jbool inp "expect"), ("panic", false)]
  | _ =>
    let pre := prefixItems inp
    let pub := parseRec (jget inp "pub")
    let prf := parseRec (jget inp "prf")
    let (v, e) := run op pre pub prf
    let (ok, panic) := match v with
      | .ok b => (b, false)
      | .error _ => (false, true)
    let viol := match demand (jstr inp "class") with
      | some true => !ok
      | some false => ok || panic
      | none => false
    jobj [("ok", ok), ("panic", panic), ("e", e), ("viol", viol)]

end Mps.Drv.ZK
