import Mps.Json
import Mps.Sig
import Mps.SigVariant
/- Driver side of suite `sig` (C16): Go vs the model of the Go code (`go`-fields) and vs the
   specifications written from the standards (`std`-fields). -/
namespace Mps.Drv.Sig
open Lean Mps Mps.Secp Mps.Sig Mps.Sig.Variant

def optHex (o : Option Bytes) : Json := match o with | none => Json.null | some b => toHex b
def sc32 (v : Nat) : String := toHex (beN 32 v)

/-- "inf" = the identity (`group.NewPoint()`), otherwise 33 bytes through the given decoder -/
def parsePt (dec : Bytes → Option Pt) (j : Json) (k : String) : Option Pt :=
  if jstr j k == "inf" then some .inf else dec (jhex j k)

def ecdsa (inp : Json) : Json :=
  let h := jhex inp "h"
  let sB := jhex inp "s"
  -- model of the Go path: UnmarshalBinary of X, R, S in this order, then Signature.Verify
  let (dec, go) :=
    match parsePt decodeCur inp "X" with
    | none => ("badX", false)
    | some X =>
      match parsePt decodeCur inp "R" with
      | none => ("badR", false)
      | some R =>
        match scalarDecodeGo sB with
        | none => ("badS", false)
        | some s => ("ok", verifyGo X h R s)
  -- the standard: strictly encoded, finite X and R; 1 ≤ s < n; the verification equation
  let (std, rs) :=
    match decodeStrict (jhex inp "X"), decodeStrict (jhex inp "R") with
    | some X, some R =>
      if sB.length ≠ 32 then (false, false) else
      let s := unbe sB
      (ecdsaVerifySpec X (fromHash h) R s, ecdsaVerifyRS X (fromHash h) (xcoord R % n) s)
    | _, _ => (false, false)
  jobj [("dec", dec), ("go", go), ("std", std), ("rs", rs)]

def eth (inp : Json) : Json :=
  let h := jhex inp "h"
  match decodeCur (jhex inp "X"), decodeCur (jhex inp "R"), scalarDecodeGo (jhex inp "s") with
  | some X, some R, some s =>
    let (out, R', s') := sigEthereumCur R s
    let obs := jhexOpt inp "obs"
    let still := match R' with | none => false | some R' => verifyGo X h R' s'
    let rec_ := match obs with | none => false | some o => ecrecover (fromHash h) o == some X
    let lows := match obs with | none => false | some o => o.length == 65 && ethLowS o
    jobj [("eth", optHex out), ("R_after", optHex (R'.map encodeGo)), ("s_after", sc32 s'),
          ("still", still), ("kept", true), ("recover", rec_), ("lows", lows), ("std_eth", optHex (ethExportSpec R s))]
  | _, _, _ => jobj [("error", "undecodable input")]

def randSrc (inp : Json) : Bip340.RandSrc :=
  if jisNull inp "aux" then .counter (jbig inp "ctr") else .reader (jhex inp "aux")

def handle (op : String) (inp : Json) : Json :=
  match op with
  | "fromhash" =>
    let h := jhex inp "h"
    jobj [("go", sc32 (fromHashGo h)), ("std", sc32 (fromHash h))]
  | "pdecode" =>
    let b := jhex inp "hex"
    let g := decodeCur b
    jobj [("ok", g.isSome), ("enc", optHex (g.map encodeGo)), ("std_ok", (decodeStrict b).isSome)]
  | "sdecode" =>
    let b := jhex inp "hex"
    let g := scalarDecodeGo b
    jobj [("ok", g.isSome), ("v", match g with | none => Json.null | some v => sc32 v)]
  | "ecdsa" => ecdsa inp
  | "eth" => eth inp
  | "bip340-sign" =>
    let sk := jhex inp "sk"
    let m := jhex inp "m"
    let rs := randSrc inp
    jobj [("sig", optHex (Bip340.signGo sk rs m)), ("std", optHex (Bip340.sign sk (Bip340.auxOf rs) m))]
  | "bip340-verify" =>
    let pk := jhex inp "pk"
    let m := jhex inp "m"
    let sig := jhex inp "sig"
    jobj [("go", bipVerifyCur pk m sig), ("std", Bip340.verify pk m sig)]
  | "bip340-pub" =>
    let sk := jhex inp "sk"
    let g := Bip340.publicGo sk
    let xonly := match g with
      | none => false
      | some pk =>
        pk.length == 32 &&
        (match liftX (unbe pk) with
         | none => false
         | some P => hasEvenY P && (P == mul (unbe sk) G || P == neg (mul (unbe sk) G)))
    jobj [("pk", optHex g), ("std", optHex (Bip340.pubkey sk)), ("xonly", xonly)]
  | "bip340-vector" =>
    let sk := jhex inp "sk"
    let pk := Bip340.pubkey sk
    let sig := Bip340.sign sk (jhex inp "aux") (jhex inp "m")
    jobj [("pk", optHex pk), ("sig", optHex sig),
          ("ver", Bip340.verify (jhex inp "pk") (jhex inp "m") (jhex inp "sig")),
          ("match", pk == some (jhex inp "pk") && sig == some (jhex inp "sig"))]
  | _ => jobj [("error", "unknown op")]

end Mps.Drv.Sig
