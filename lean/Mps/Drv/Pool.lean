import Mps.Json
import Mps.Pool
/-
  Driver side of suite `pool` (C18). The harness drives the REAL pool through the yield hooks and
  sends the observation: the sequence of arrivals (actor, yield point, oracle value), the returned
  slice and the measured number of idle workers. The model JUDGES it:

    ok  :=  the arrivals, read as labels, are a path of the transition system (and after every
            arrival the model's program counter of that goroutine is the one the real goroutine
            reported)  ∧  the model has returned  ∧  the returned slice is the model's  ∧
            all workers are idle in the model and in the measurement.

  Which system: the repaired one (`Pool.Fixed.*`) unless the trace shows the caller polling the
  counter (yield point `*.beforeLoad`, which exists only in the code before the repair), then
  `Pool.Par` / `Pool.Search`.
-/
namespace Mps.Drv.Pool
open Lean Mps Mps.Pool

structure Ev where
  actor : Int      -- job ordinal (k-th command of the call), -1 = caller
  point : String
  val : Nat

def parseEv (j : Json) : Ev :=
  match j.getArr? with
  | .ok a =>
    { actor := ((a[0]?.getD Json.null).getInt?).toOption.getD 0,
      point := ((a[1]?.getD Json.null).getStr?).toOption.getD "",
      val := ((a[2]?.getD Json.null).getNat?).toOption.getD 0 }
  | .error _ => { actor := 0, point := "?", val := 0 }

def parseResults (inp : Json) : List (Option Nat) :=
  (jarr inp "results").map fun x => if x.isNull then none else x.getNat?.toOption

def resultsJ (r : List (Option Nat)) : Json :=
  Json.arr (r.map fun x => match x with | none => Json.null | some v => (v : Json)).toArray

/-- judge state: model state, job ↦ worker index, job ↦ previous yield point -/
structure JS (σ : Type) where
  st : σ
  jobs : List (Nat × Nat) := []
  last : List (Nat × String) := []
  err : Option String := none
  idx : Nat := 0

def lookup {β : Type} (k : Nat) : List (Nat × β) → Option β
  | [] => none
  | (a, b) :: l => if a = k then some b else lookup k l

def firstIdx {α : Type} (p : α → Bool) (l : List α) : Option Nat :=
  let rec go : List α → Nat → Option Nat
    | [], _ => none
    | a :: l, i => if p a then some i else go l (i + 1)
  go l 0

/-- one system, as seen by the judge -/
structure Sys (σ L ω : Type) where
  step : σ → L → Option σ
  ws : σ → List ω
  isIdle : ω → Bool
  /-- worker arrival: previous point, event, worker index ↦ labels and the state the worker must then be in -/
  worker : String → Ev → Nat → Option (List L × (ω → Bool))
  /-- caller arrival ↦ labels and a check on the state afterwards -/
  caller : Ev → Option (List L × (σ → Bool))

def applyLabels {σ L : Type} (step : σ → L → Option σ) : σ → List L → Option σ
  | s, [] => some s
  | s, l :: ls => match step s l with
    | none => none
    | some s' => applyLabels step s' ls

def feed {σ L ω : Type} (sys : Sys σ L ω) (js : JS σ) (e : Ev) : JS σ :=
  if js.err.isSome then js else
  let fail (m : String) : JS σ := { js with err := some s!"event {js.idx} ({e.actor}, {e.point}): {m}" }
  if e.actor < 0 then
    match sys.caller e with
    | none => fail "unknown caller yield point"
    | some (ls, chk) =>
      match applyLabels sys.step js.st ls with
      | none => fail "step not enabled in the model"
      | some s' => if chk s' then { js with st := s', idx := js.idx + 1 } else fail "model caller is at a different program counter"
  else
    let j := e.actor.toNat
    let w? := match lookup j js.jobs with
      | some w => some w
      | none => firstIdx sys.isIdle (sys.ws js.st)
    match w? with
    | none => fail "no idle worker in the model"
    | some w =>
      let prev := (lookup j js.last).getD ""
      match sys.worker prev e w with
      | none => fail s!"unexpected arrival after '{prev}'"
      | some (ls, chk) =>
        match applyLabels sys.step js.st ls with
        | none => fail "step not enabled in the model"
        | some s' =>
          match (sys.ws s')[w]? with
          | none => fail "worker index out of range"
          | some ww =>
            if !chk ww then fail "model worker is at a different program counter" else
            let jobs := (j, w) :: js.jobs.filter (·.1 != j)
            let last := (j, e.point) :: js.last.filter (·.1 != j)
            if e.point == "worker.idle" then
              { js with st := s', jobs := jobs.filter (·.1 != j), last := last.filter (·.1 != j), idx := js.idx + 1 }
            else { js with st := s', jobs := jobs, last := last, idx := js.idx + 1 }

/-! the four systems -/

def parFixed (n base : Nat) : Sys Fixed.Par.State Fixed.Par.Label Fixed.Par.W where
  step := Fixed.Par.step n (base + ·)
  ws := (·.ws)
  isIdle := (· == .idle)
  worker := fun prev e w =>
    match prev, e.point with
    | "", "worker.gotCmd" => some ([.cmd w], fun x => match x with | .got _ => true | _ => false)
    | "worker.gotCmd", "worker.beforeNotify" => some ([.write w], (· == .notify))
    | "worker.beforeNotify", "worker.idle" => some ([.notify w], (· == .idle))
    | _, _ => none
  caller := fun e =>
    match e.point with
    | "Parallelize.beforeSelect" | "Parallelize.sent" | "Parallelize.notified" | "Parallelize.beforeRecv" =>
      some ([], fun s => !s.ret)
    | "Parallelize.return" => some ([.ret], (·.ret))
    | _ => none

def parAsIs (n base : Nat) : Sys Par.State Par.Label Par.W where
  step := Par.step n (base + ·)
  ws := (·.ws)
  isIdle := (· == .idle)
  worker := fun prev e w =>
    match prev, e.point with
    | "", "worker.gotCmd" => some ([.cmd w], fun x => match x with | .got _ => true | _ => false)
    | "worker.gotCmd", "worker.beforeDec" => some ([.write w], (· == .wrote))
    | "worker.beforeDec", "worker.beforeNotify" => some ([.dec w], (· == .notify))
    | "worker.beforeNotify", "worker.idle" => some ([.notify w], (· == .idle))
    | _, _ => none
  caller := fun e =>
    match e.point with
    | "Parallelize.beforeSelect" | "Parallelize.sent" | "Parallelize.notified" | "Parallelize.beforeLoad" =>
      some ([], fun s => s.pc == .top)
    | "Parallelize.beforeRecv" => some ([.load], fun s => s.pc == .recv)
    | "Parallelize.return" => some ([.load], fun s => s.pc == .ret)
    | _ => none

def isWrite : Fixed.Search.W → Bool | .write _ _ => true | _ => false
def isWriteA : Search.W → Bool | .write _ _ => true | _ => false

def searchFixed : Sys Fixed.Search.State Fixed.Search.Label Fixed.Search.W where
  step := Fixed.Search.step
  ws := (·.ws)
  isIdle := (· == .idle)
  worker := fun prev e w =>
    match prev, e.point with
    | "", "workerSearch.beforeLoad" => some ([.cmd w], (· == .load))
    | "workerSearch.beforeLoad", "workerSearch.beforeEval" => some ([.load w], (· == .eval))
    | "workerSearch.beforeLoad", "worker.beforeNotify" => some ([.load w], (· == .done))
    | "workerSearch.beforeEval", "workerSearch.beforeLoad" => some ([.eval w none], (· == .load))
    | "workerSearch.beforeEval", "workerSearch.beforeDec" => some ([.eval w (some e.val)], (· == .dec e.val))
    | "workerSearch.beforeDec", "workerSearch.beforeWrite" => some ([.dec w], isWrite)
    | "workerSearch.beforeWrite", "workerSearch.beforeLoad" => some ([.write w], (· == .load))
    | "worker.beforeNotify", "worker.idle" => some ([.notify w], (· == .idle))
    | _, _ => none
  caller := fun e =>
    match e.point with
    | "Search.beforeSelect" | "Search.sent" | "Search.notified" | "Search.beforeRecv" => some ([], fun s => !s.ret)
    | "Search.return" => some ([.ret], (·.ret))
    | _ => none

def searchAsIs : Sys Search.State Search.Label Search.W where
  step := Search.step
  ws := (·.ws)
  isIdle := (· == .idle)
  worker := fun prev e w =>
    match prev, e.point with
    | "", "workerSearch.beforeLoad" => some ([.cmd w], (· == .load))
    | "workerSearch.beforeLoad", "workerSearch.beforeEval" => some ([.load w], (· == .eval))
    | "workerSearch.beforeLoad", "worker.idle" => some ([.load w], (· == .idle))
    | "workerSearch.beforeEval", "workerSearch.beforeLoad" => some ([.eval w none], (· == .load))
    | "workerSearch.beforeEval", "workerSearch.beforeDec" => some ([.eval w (some e.val)], (· == .dec e.val))
    | "workerSearch.beforeDec", "workerSearch.beforeWrite" => some ([.dec w], isWriteA)
    | "workerSearch.beforeWrite", "workerSearch.beforeNotify" => some ([.write w], (· == .notify))
    | "workerSearch.beforeNotify", "workerSearch.beforeLoad" => some ([.notify w], (· == .load))
    | _, _ => none
  caller := fun e =>
    match e.point with
    | "Search.beforeSelect" | "Search.sent" | "Search.notified" | "Search.beforeLoad" => some ([], fun s => s.pc == .top)
    | "Search.beforeRecv" => some ([.cload], fun s => s.pc == .recv)
    | "Search.return" => some ([.cload], fun s => s.pc == .ret)
    | _ => none

/-- what the workers still do on their own after the caller has returned (code before the repair
    only: workers may still be inside the search loop; the harness' oracle answers them 999999):
    every enabled worker-only step, until none is enabled. A worker that is then not idle sits in
    its notification send for ever. -/
def settleSearch (s : Search.State) : Search.State :=
  let W := s.ws.length
  let rec pass : Nat → Search.State → Search.State
    | 0, s => s
    | f + 1, s =>
      let s' := (List.range W).foldl (fun s w =>
        [Search.Label.load w, .eval w (some 999999), .dec w, .write w].foldl
          (fun s l => (Search.step s l).getD s) s) s
      pass f s'
  pass (4 * W + 8) s

/-- verdict of one observed call -/
def verdict {σ L ω : Type} (sys : Sys σ L ω) (init : σ) (returned : σ → Bool) (res : σ → List (Option Nat))
    (settle : σ → σ)
    (evs : List Ev) (W : Nat) (obsReturned : Bool) (obsResults : List (Option Nat)) (obsIdle : Int) : Json :=
  let js := evs.foldl (feed sys) { st := init }
  let modelIdle := ((sys.ws (settle js.st)).filter sys.isIdle).length
  let why : Option String :=
    match js.err with
    | some e => some ("trace rejected by the transition relation: " ++ e)
    | none =>
      if !obsReturned then some "the call did not return"
      else if !returned js.st then some "the model has not returned at the end of the trace"
      else if res js.st != obsResults then some "returned slice differs from the model's"
      else if obsIdle != (modelIdle : Int) then some s!"measured {obsIdle} idle workers, model {modelIdle}"
      else if (res js.st).any (·.isNone) then some "the returned slice has a nil slot (as in the model)"
      else if modelIdle != W then some s!"the caller has returned and {W - modelIdle} worker(s) stay blocked for ever in their notification send (as in the model)"
      else none
  match why with
  | none => jobj [("ok", true)]
  | some m => jobj [("ok", false), ("why", m), ("accepted", js.err.isNone), ("modelIdle", modelIdle),
                    ("modelResults", resultsJ (res js.st))]

/-! number of maximal schedules of the repaired systems (idle workers are interchangeable: a command
    goes to the lowest idle one) — compared with the number of interleavings the harness enumerated;
    the fuel is the proven bound on the length of a schedule (C18.steps_bounded, search_steps_bounded) -/

def succPar (n : Nat) (s : Fixed.Par.State) : List Fixed.Par.State :=
  let W := s.ws.length
  let labs := (List.range W).flatMap (fun w => [Fixed.Par.Label.write w, .notify w]) ++
    (match firstIdx (· == Fixed.Par.W.idle) s.ws with | some w => [Fixed.Par.Label.cmd w] | none => []) ++ [.ret]
  labs.filterMap (Fixed.Par.step n id s)

def countPar (n : Nat) : Nat → Fixed.Par.State → Nat
  | 0, _ => 0
  | f + 1, s =>
    let succs := succPar n s
    if succs.isEmpty then 1 else (succs.map (countPar n f)).foldl (· + ·) 0

def succSearch (s : Fixed.Search.State) (nils : Nat) : List (Fixed.Search.State × Nat) :=
  let W := s.ws.length
  let labs : List (Fixed.Search.Label × Nat) :=
    (List.range W).flatMap (fun w =>
      [(Fixed.Search.Label.load w, 0), (.eval w (some 1), 0)] ++ (if nils > 0 then [(Fixed.Search.Label.eval w none, 1)] else []) ++
      [(.dec w, 0), (.write w, 0), (.notify w, 0)]) ++
    (match firstIdx (· == Fixed.Search.W.idle) s.ws with | some w => [(Fixed.Search.Label.cmd w, 0)] | none => []) ++ [(.ret, 0)]
  labs.filterMap fun (l, c) => (Fixed.Search.step s l).map fun s' => (s', nils - c)

def countSearch : Nat → Fixed.Search.State → Nat → Nat
  | 0, _, _ => 0
  | f + 1, s, nils =>
    let succs := succSearch s nils
    if succs.isEmpty then 1 else (succs.map (fun (s', k) => countSearch f s' k)).foldl (· + ·) 0

def handle (op : String) (inp : Json) : Json :=
  match op with
  | "hooks" => jobj [("present", true)]
  | "count" =>
    let W := jnat inp "W"; let n := jnat inp "n"; let maxNil := jnat inp "maxNil"
    if jstr inp "kind" == "par" then
      jobj [("paths", countPar n (3 * n + 3) (Fixed.Par.init (List.replicate W .idle) n))]
    else
      jobj [("paths", countSearch (7 * W + 4 * n + 3 + 2 * maxNil) (Fixed.Search.init (List.replicate W .idle) n) maxNil)]
  | "stress" => jobj [("ok", true)]   -- pool_reusable: any number of calls, all workers idle after each
  | "nilpar" =>
    let n := jnat inp "n"; let base := jnat inp "base"
    jobj [("results", resultsJ (parallelizeAlone (base + ·) n))]
  | "defaultpool" =>
    -- a pool created with a non-positive size has workers whatever the CPU allowance: same answers as any pool
    let n := jnat inp "n"; let base := jnat inp "base"
    jobj [("returned", true), ("results", resultsJ (parallelizeAlone (base + ·) n)), ("searchLen", n), ("searchNonNil", n)]
  | "primesearch" =>
    -- sample.Paillier reads its stream through ONE pool.LockedReader: reads are serial, two different blocks are used
    jobj [("overlap", false), ("distinct", true), ("fromStream", true)]
  | "nilsearch" =>
    let answers := (jarr inp "answers").map fun x => if x.isNull then none else x.getNat?.toOption
    match searchAlone answers (jnat inp "n") with
    | some r => jobj [("results", resultsJ r)]
    | none => jobj [("results", "does not terminate: the oracle stream ends first")]
  | "par" | "search" =>
    let evs := (jarr inp "events").map parseEv
    let W := jnat inp "W"; let n := jnat inp "n"; let base := jnat inp "base"
    let asIs := evs.any fun e => e.point == "Parallelize.beforeLoad" || e.point == "Search.beforeLoad"
    let ret := jbool inp "returned"
    let obs := parseResults inp
    let idle := jint inp "idle"
    if op == "par" then
      if asIs then
        verdict (parAsIs n base) (Par.init (List.replicate W .idle) n) (·.pc == .ret) (·.res) id evs W ret obs idle
      else
        verdict (parFixed n base) (Fixed.Par.init (List.replicate W .idle) n) (·.ret) (·.res) id evs W ret obs idle
    else
      if asIs then
        verdict searchAsIs (Search.init (List.replicate W .idle) n) (·.pc == .ret) (·.res) settleSearch evs W ret obs idle
      else
        verdict searchFixed (Fixed.Search.init (List.replicate W .idle) n) (·.ret) (·.res) id evs W ret obs idle
  | _ => jobj [("error", "unknown op")]

end Mps.Drv.Pool
