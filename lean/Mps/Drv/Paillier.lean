import Mps.Json
import Mps.Paillier
/- Driver side of suite `paillier` (C12): the model recomputes every value the Go code produced
   (bit-exact), and judges the MtA identity α + β = a·b over ℤ and mod q. -/
namespace Mps.Drv.Paillier
open Lean Mps Mps.Paillier

def keyOf (j : Json) (k : String) : SecretKey :=
  let kj := jget j k
  SecretKey.ofPrimes (jbig kj "p") (jbig kj "q")

/-- the public key the Go side used: "sk" = the key embedded in the secret key (CRT exponentiation),
    "pk" = `NewPublicKey(N)` (plain exponentiation) -/
def pkOf (sk : SecretKey) (mode : String) : PublicKey :=
  if mode == "pk" then PublicKey.ofN sk.pk.N else sk.pk

def jb (b : Bool) : Json := Json.bool b
def jh (n : Nat) : Json := Json.str (nhex n)
def jsh (i : Int) : Json := Json.str (shex i)

def decJson (sk : SecretKey) (c : Nat) : Json :=
  match sk.decSA c with
  | none => jobj [("outcome", "err")]
  | some (ng, ab) => jobj [("outcome", "ok"), ("neg", jb ng), ("abs", jh ab)]

def encOutcome (o : Option Nat) : String := match o with | none => "refused" | some _ => "ok"

def mtaJudge (snd rcv : SecretKey) (a b : Int) (q : Nat) (d f : Nat) (beta : Int) : List (String × Json) :=
  match rcv.dec d with
  | none => [("outcome", "err")]
  | some alpha =>
    match snd.dec f with
    | none => [("outcome", "err-f")]
    | some fd =>
      [("alpha", jsh alpha), ("fdec", jsh fd),
       ("exact", jb (alpha + beta == a * b)),
       ("exactq", jb (((alpha % (q : Int)) + (beta % (q : Int))) % (q : Int) == (a * b) % (q : Int))),
       ("fok", jb (fd == -beta)), ("go_exact", jb true), ("go_exactq", jb true), ("go_fok", jb true)]

def handle (op : String) (inp : Json) : Json :=
  match op with
  | "key" =>
    let sk := SecretKey.ofPrimes (jbig inp "p") (jbig inp "q")
    jobj [("n", jh sk.pk.N), ("n2", jh sk.pk.N2), ("phi", jh sk.phi), ("phiinv", jh sk.phiInv),
          ("p1", jh sk.pk.n.p), ("q1", jh sk.pk.n.q), ("pinv1", jh sk.pk.n.pInv),
          ("p2", jh sk.pk.n2.p), ("q2", jh sk.pk.n2.q), ("pinv2", jh sk.pk.n2.pInv),
          ("validn", toJson (validateN bitsPaillier sk.pk.N))]
  | "enc" =>
    let sk := keyOf inp "key"
    match (pkOf sk (jstr inp "mode")).enc (jsbig inp "m") (jbig inp "nonce") with
    | none => jobj [("outcome", "refused")]
    | some c => jobj [("outcome", "ok"), ("c", jh c)]
  | "encdec" =>
    let sk := keyOf inp "key"
    let pk := pkOf sk (jstr inp "mode")
    let m := jsbig inp "m"
    match pk.enc m (jbig inp "nonce") with
    | none => jobj [("outcome", "refused")]
    | some c =>
      let rand :=
        match sk.decWithRandomness c with
        | none => jobj [("outcome", "err")]
        | some (m2, r) =>
          let c2 := pk.enc m2 r
          jobj [("outcome", "ok"), ("m", jsh m2), ("r", jh r), ("reenc", encOutcome c2), ("same", jb (c2 == some c))]
      jobj [("outcome", "ok"), ("c", jh c), ("dec", decJson sk c), ("roundtrip", jb (sk.dec c == some m)), ("rand", rand)]
  | "add" =>
    let sk := keyOf inp "key"
    let pk := pkOf sk (jstr inp "mode")
    let m1 := jsbig inp "m1"
    let m2 := jsbig inp "m2"
    match pk.enc m1 (jbig inp "r1"), pk.enc m2 (jbig inp "r2") with
    | some c1, some c2 =>
      let s := pk.add c1 c2
      -- `hom` is what the THEOREM `add_hom` predicts: exact iff the sum is in range
      jobj [("c", jh s), ("dec", decJson sk s), ("hom", jb ((m1 + m2).natAbs ≤ sk.pk.N / 2))]
    | _, _ => jobj [("outcome", "refused")]
  | "mul" =>
    let sk := keyOf inp "key"
    let pk := pkOf sk (jstr inp "mode")
    let m := jsbig inp "m"
    let k := jsbig inp "k"
    match pk.enc m (jbig inp "r") with
    | some c1 =>
      let s := pk.mul c1 k
      jobj [("c", jh s), ("dec", decJson sk s), ("hom", jb ((m * k).natAbs ≤ sk.pk.N / 2))]
    | none => jobj [("outcome", "refused")]
  | "validate" =>
    let sk := keyOf inp "key"
    jobj [("ok", jb ((pkOf sk (jstr inp "mode")).validate (jbig inp "c")))]
  | "validate_nil" => jobj [("ok", jb false)]
  | "validate_batch" =>
    let sk := keyOf inp "key"
    let pk := pkOf sk (jstr inp "mode")
    -- `ValidateCiphertexts(c₁, …, cₖ)`: every member is valid
    jobj [("ok", jb ((jarr inp "cs").all fun x => pk.validate (parseSHex (x.getStr?.toOption.getD "")).2))]
  | "decrand" =>
    let sk := keyOf inp "key"
    let c := jbig inp "c"
    match sk.decSA c, sk.decWithRandomness c with
    | some (ng, ab), some (m2, r) =>
      let c2 := sk.pk.enc m2 r
      jobj [("outcome", "ok"), ("neg", jb ng), ("abs", jh ab), ("r", jh r), ("reenc", encOutcome c2), ("same", jb (c2 == some c))]
    | _, _ => jobj [("outcome", "err")]
  | "exp" =>
    let p := jbig inp "p"
    let q := jbig inp "q"
    let x := jbig inp "x"
    let e := jbig inp "e"
    jobj [("crt", jh ((Modulus.ofFactors p q).exp x e)), ("plain", jh ((Modulus.ofN (p * q)).exp x e))]
  | "expi" =>
    let p := jbig inp "p"
    let q := jbig inp "q"
    let x := jbig inp "x"
    let e := jsbig inp "e"
    jobj [("crt", jh ((Modulus.ofFactors p q).expI x e)), ("plain", jh ((Modulus.ofN (p * q)).expI x e))]
  | "expi_nonunit" =>
    -- ModInverse of a non-unit is unspecified in saferith: only judge the observation
    let n := jbig inp "p" * jbig inp "q"
    let y := powMod (jbig inp "x") (jsbig inp "e").natAbs n
    let v := jbig inp "crt"
    jobj [("agree", jb (v == jbig inp "plain")), ("reduced", jb (v < n)),
          ("bezout", jb (y * v % n == Nat.gcd y n % n)), ("go", jb true)]
  | "validaten" => jobj [("code", toJson (validateN bitsPaillier (jbig inp "n")))]
  | "validaten_nil" => jobj [("code", toJson (3 : Nat))]
  | "sampleneg" =>
    let v := sampleNegSA (jhex inp "buf")
    jobj [("neg", jb v.1), ("abs", jh v.2), ("inrange", jb (v.2 < 2 ^ jnat inp "bits"))]
  | "mta_new" =>
    let snd := keyOf inp "sender"
    let rcv := keyOf inp "receiver"
    let a := jsbig inp "a"
    let b := jsbig inp "b"
    match rcv.pk.enc b (jbig inp "bnonce") with
    | none => jobj [("outcome", "refused-b")]
    | some B =>
      match mta snd.pk rcv.pk a B (jsbig inp "betaneg") (jbig inp "s") (jbig inp "r") with
      | none => jobj [("outcome", "refused")]
      | some o =>
        jobj (mtaJudge snd rcv a b (jbig inp "q") o.d o.f o.beta ++ [("d", jh o.d), ("f", jh o.f), ("beta", jsh o.beta)])
  | "mta_affg" | "mta_affp" =>
    let snd := keyOf inp "sender"
    let rcv := keyOf inp "receiver"
    jobj (mtaJudge snd rcv (jsbig inp "a") (jsbig inp "b") (jbig inp "q") (jbig inp "d") (jbig inp "f") (jsbig inp "beta"))
  | _ => jobj [("error", "unknown op")]

end Mps.Drv.Paillier
