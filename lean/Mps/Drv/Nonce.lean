import Mps.Json
import Mps.Nonce
import Mps.Readers
/- Driver side of suite `nonce` (C11): Lean recomputes the published nonce commitments bit for bit. -/
namespace Mps.Drv.Nonce
open Lean Mps Mps.Secp Mps.Nonce Mps.Sig

def optHex (o : Option Bytes) : Json := match o with | none => Json.null | some b => toHex b

def parseFrost (j : Json) : FrostCtx :=
  { share := jhex j "share", sid := jhexOpt j "sid", taproot := jbool j "taproot",
    signers := (jarr j "signers").map fun x => (ofHex (x.getStr?.toOption.getD "")).getD [],
    thr := jnat j "thr", m := jhex j "m", a := jhex j "a" }

def frostOut (c : FrostCtx) : Option (Bytes × Bytes) :=
  c.commitments.map fun (D, E) => (Sig.encodeGo D, Sig.encodeGo E)

/-- the random source of one signing: the atomic counter (rand == nil), the 32 bytes the reader delivered, or — for a
    source with short reads — a stream and the number of bytes each Read call hands out: the signer's io.ReadFull -/
def bipCtx (j : Json) : Bytes × Bip340.RandSrc × Bytes :=
  let rs : Bip340.RandSrc :=
    if !(jisNull j "auxstream") then
      .reader (Readers.readFull (jhex j "auxstream") 32 (List.replicate (jhex j "auxstream").length (jnat j "chunk")))
    else if jisNull j "aux" then .counter (jbig j "ctr") else .reader (jhex j "aux")
  (jhex j "sk", rs, jhex j "m")

def handle (op : String) (inp : Json) : Json :=
  match op with
  | "frost" =>
    let o := frostOut (parseFrost inp)
    jobj [("D", optHex (o.map (·.1))), ("E", optHex (o.map (·.2)))]
  | "frostpair" =>
    let c1 := parseFrost (jget inp "c1")
    let c2 := parseFrost (jget inp "c2")
    let o1 := frostOut c1
    let o2 := frostOut c2
    -- the property: the commitments differ exactly when the contexts (incl. the random bytes) differ
    jobj [("D1", optHex (o1.map (·.1))), ("E1", optHex (o1.map (·.2))),
          ("D2", optHex (o2.map (·.1))), ("E2", optHex (o2.map (·.2))),
          ("distinct", decide (c1 ≠ c2))]
  | "bip340" =>
    let (sk, rs, m) := bipCtx inp
    jobj [("R", optHex (bip340NonceCommitment sk rs m))]
  | "bip340pair" =>
    let (sk1, rs1, m1) := bipCtx (jget inp "c1")
    let (sk2, rs2, m2) := bipCtx (jget inp "c2")
    -- sk and n − sk are the same BIP-340 key (same x-only public key, same normalised d)
    let same := (Bip340.publicGo sk1 == Bip340.publicGo sk2) && Bip340.auxOf rs1 == Bip340.auxOf rs2 && m1 == m2
    jobj [("R1", optHex (bip340NonceCommitment sk1 rs1 m1)), ("R2", optHex (bip340NonceCommitment sk2 rs2 m2)),
          ("distinct", !same)]
  | _ => jobj [("error", "unknown op")]

end Mps.Drv.Nonce
