import Mps.Json
import Mps.Malform
/- Driver side of suite `malform` (C05): judges the observations made on the real handlers. -/
namespace Mps.Drv.Malform
open Lean Mps Mps.Malform

def parseSnap (j : Json) : Snap :=
  { ended := jbool j "ended", closed := jbool j "closed", err := jbool j "err", res := jbool j "res", emitted := jnat j "emitted" }

def handle (op : String) (inp : Json) : Json :=
  match op with
  | "malform" =>
    let o := jget inp "obs"
    if o.isNull then jobj [("ok", false), ("why", "no observation: the model has no such outcome")]
    else
      jobj [("ok", obsOk (jbool o "can") (parseSnap (jget o "s0")) (parseSnap (jget o "s1")) (parseSnap (jget o "s2")))]
  | _ => jobj [("error", "unknown op")]

end Mps.Drv.Malform
