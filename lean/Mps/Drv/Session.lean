import Mps.Json
import Mps.Session
import Mps.Drv.Frame
import Mps.Blake3
import Mps.Drv.Start
/- Driver side of suite `session` (C09). -/
namespace Mps.Drv.Session
open Lean Mps

def H (b : Bytes) : Bytes := Blake3.hashXof b 64

structure Parsed where
  params : SessionParams
  self   : Bytes
  thrInt : Int
  rawIds : List Bytes
  auxOk  : Bool
  deriving Repr

/-- insertion sort by Go string order (party.NewIDSlice sorts a copy) -/
def insertId (x : Bytes) : List Bytes → List Bytes
  | [] => [x]
  | y :: ys => if bytesLt y x then y :: insertId x ys else x :: y :: ys
def sortIds (l : List Bytes) : List Bytes := l.foldr insertId []

def parse (j : Json) : Parsed :=
  let raw := (jarr j "ids").map fun x => (ofHex (x.getStr?.toOption.getD "")).getD []
  let auxVals := (jarr j "aux").map Frame.parseTV
  -- []byte aux values are wrapped by the harness as BytesWithDomain{"aux", b}
  let auxVals := auxVals.map fun v => match v with | .bytes b => TVal.bwd (str "aux") b | v => v
  let auxItems := auxVals.filterMap encode
  let thr := jint j "thr"
  { params := { sid := jhexOpt j "sid", proto := str (jstr j "proto"),
                group := if jbool j "group" then some (str "secp256k1") else none,
                ids := sortIds raw, thr := thr.toNat, aux := auxItems },
    self := jhex j "self", thrInt := thr, rawIds := raw,
    auxOk := auxVals.all fun v => (encode v).isSome }

/-- model of round.NewSession: refused parameters, a failing WriteAny, or the tag -/
def runModel (p : Parsed) : Json :=
  -- note: nil aux values are skipped by NewSession (`if a == nil continue`); an aux value refused by
  -- WriteAny makes NewSession fail; an empty ID inside the slice is written (WriteTo of IDSlice does
  -- not refuse it) — the model follows the code
  if !newSessionOk p.params.ids p.self p.thrInt then jobj [("ok", false)]
  -- `validateIDs` (present once the regenerated NewSession guards show it, see Mps.Drv.Start.currentCode): no empty
  -- id; with a group, no zero and no colliding scalar images
  else if Mps.Drv.Start.currentCode.idGuard &&
      !(p.params.ids.all (· != []) && (p.params.group.isNone || Mps.Start.scalarsOk p.params.ids)) then jobj [("ok", false)]
  else if !p.auxOk then jobj [("ok", false)]
  else jobj [("ok", true), ("ssid", toHex (ssidWith H p.params))]

def descKey (d : Json) : String :=
  match d with
  | .obj kvs => (Json.mkObj ((kvs.toList.filter fun kv => kv.1 != "role").map fun kv => (kv.1, kv.2))).compress
  | _ => d.compress

def handle (op : String) (inp : Json) : Json :=
  match op with
  | "ssid" => runModel (parse inp)
  | "ssidpair" =>
    let a := parse (jget inp "a")
    let b := parse (jget inp "b")
    let ra := runModel a
    let rb := runModel b
    let bothOk := jbool ra "ok" && jbool rb "ok"
    -- different parameter sets must have different tags (the `self` of a party is not a session parameter)
    jobj [("a", ra), ("b", rb), ("same", bothOk && decide (a.params = b.params))]
  | "catalogue" =>
    let es := (jarr inp "entries").map fun e => (descKey (jget e "desc"), jstr e "tag")
    let ok := es.all fun (d1, t1) => es.all fun (d2, t2) => (d1 == d2) == (t1 == t2)
    jobj [("ok", ok)]
  | "replay" =>
    let same := descKey (jget inp "x") == descKey (jget inp "y")
    jobj [("ok", same || !(jbool inp "can"))]
  | _ => jobj [("error", "unknown op")]

end Mps.Drv.Session
