import Mps.Json
import Mps.TwoParty
import Mps.Session
import Mps.Drv.Handler
/- Driver side of suite `twoparty`. -/
namespace Mps.Drv.TwoParty
open Lean Mps Mps.Handler Mps.TwoParty

def parseScript2 (j : Json) : Script2 :=
  let ids := (jarr j "ids").map fun x => (ofHex (x.getStr?.toOption.getD "")).getD []
  let sidHex := jstr j "sessionID"
  let params : SessionParams :=
    { sid := if sidHex == "" then none else some ((ofHex sidHex).getD []), proto := str (jstr j "proto"),
      group := some (str "secp256k1"), ids := ids, thr := 1, aux := [] }
  { ids := ids, self := jhex j "self", peer := jhex j "peer", final := jnat j "final",
    rounds := (jarr j "rounds").map fun r => ⟨jnat r "num", jbool r "recv", jbool r "send", jnat r "sendNum"⟩,
    proto := str (jstr j "proto"), ssid := ssidWith Mps.Drv.Handler.H params, leader := jbool j "leader",
    finErrAt := jnat j "finErrAt" }

def termJ2 (s : State2) : String :=
  match s.result, s.err with
  | some v, _ => s!"result:{v}"
  | none, none => "running"
  | none, some k =>
    "err:" ++ (match k with
      | .msgFail => "msgFail" | .peerAbort => "peerAbort" | .finalizeErr => "finalizeErr"
      | .protoAbort => "protoAbort" | .stopped => "stopped")

def observe2 (before after : State2) : List (String × Json) :=
  let new := after.out.drop before.out.length
  let emitted := new.filter (·.rnd != 0)
  let notices := (new.filter (·.rnd == 0)).length
  [("out", Json.arr (emitted.map Mps.Drv.Handler.msgJ).toArray), ("closed", decide (after.closes > 0)),
   ("notice", Json.num notices), ("term", termJ2 after)]

abbrev Store2 := List (String × State2)
def getS (st : Store2) (sid : String) : Option State2 := (st.find? (·.1 == sid)).map (·.2)
def putS (st : Store2) (sid : String) (s : State2) : Store2 := (sid, s) :: st.filter (·.1 != sid)

def handle (st : Store2) (op : String) (inp : Json) : Store2 × Json :=
  let sid := jstr inp "sid"
  match op with
  | "conc2" =>
    -- an observed concurrent run (Accept ‖ Stop ‖ readers on one handler): every handler must be in a state the
    -- lifecycle invariant allows: running with an open channel, or ended (result or error) with the channel closed
    let terms := (jarr inp "terms").map fun t => t.getStr?.toOption.getD ""
    let closed := (jarr inp "closed").map fun b => b.getBool?.toOption.getD false
    let okOne (t : String) (cl : Bool) : Bool :=
      if t == "running" then !cl else (t.startsWith "result:" || t.startsWith "err:") && cl
    (st, jobj [("ok", terms.length == closed.length && (terms.zip closed).all fun (t, cl) => okOne t cl)])
  | "init" =>
    let sc := parseScript2 (jget inp "script")
    let s := init2 sc
    (putS (st.take 16) sid s, jobj (observe2 { s with out := [] } s))
  | "accept" =>
    match getS st sid with
    | none => (st, jobj [("error", "unknown sid")])
    | some s =>
      let m := Mps.Drv.Handler.parseMsg (jget inp "msg")
      let s' := accept2 s m
      (putS st sid s', jobj (observe2 s s' ++ [("can", Json.bool (canAccept2 s m))]))
  | "stop" =>
    match getS st sid with
    | none => (st, jobj [("error", "unknown sid")])
    | some s => let s' := stop2 s; (putS st sid s', jobj (observe2 s s'))
  | _ => (st, jobj [("error", "unknown op")])

end Mps.Drv.TwoParty
