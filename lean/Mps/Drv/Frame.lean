import Mps.Json
import Mps.Typed
import Mps.Blake3
/- Driver side of suite `frame` (C19): digests, adversarial pairs, commit / decommit. -/
namespace Mps.Drv.Frame
open Lean Mps

def parseTV (j : Json) : TVal :=
  match jstr j "t" with
  | "bytes" => .bytes (jhexOpt j "hex")
  | "bigint" => if jisNull j "v" then .bigint none else .bigint (some (parseSHex (jstr j "v")))
  | "id" => .id (jhex j "hex")
  | "ids" => if jisNull j "ids" then .ids none else
      .ids (some ((jarr j "ids").map fun x => (ofHex (x.getStr?.toOption.getD "")).getD []))
  | "rid" => .rid (jhexOpt j "hex")
  | "com" => .com (jhexOpt j "hex")
  | "decom" => .decom (jhexOpt j "hex")
  | "thr" => .thr (jnat j "n")
  | "rnd" => .rnd (jnat j "n")
  | "sigmsg" => .sigmsg (jhexOpt j "hex")
  | "bwd" => .bwd (jhex j "dom") (jhexOpt j "hex")
  | "point" => .point (jhex j "hex")
  | "scalar" => .scalar (jhex j "hex")
  | "ct" => .ct (jbig j "v")
  | "pk" => .pk (jbig j "n")
  | "ped" => .ped (jbig j "n") (jbig j "s") (jbig j "tt")
  | "elg" => .elg (jhex j "l") (jhex j "m")
  | _ => .opaque (jhex j "dom") (jhex j "hex")

def parseSeq (j : Json) (k : String) : List TVal := (jarr j k).map parseTV

/-- values written one `WriteAny` call each: refused ones are skipped, the rest are written -/
def writeEach (vs : List TVal) : List Item × Int :=
  let rec go (vs : List TVal) (idx : Nat) (acc : List Item) (bad : Int) : List Item × Int :=
    match vs with
    | [] => (acc.reverse, bad)
    | v :: rest =>
      match encode v with
      | none => go rest (idx + 1) acc (if bad < 0 then idx else bad)
      | some i => go rest (idx + 1) (i :: acc) bad
  go vs 0 [] (-1)

def digest (items : List Item) : Bytes := Blake3.hashXof (transcript items) 64

def allZero (b : Bytes) : Bool := b.all (· == 0)

/-- `Commitment.Validate` / `Decommitment.Validate` -/
def validLen (b : Bytes) (n : Nat) : Bool := b.length == n && !allZero b

/-- model of `hash.Decommit` on a hash state that already holds `ctx` -/
def decommit (ctx : List Item) (c d : Bytes) (vals : List TVal) : Bool :=
  if !validLen c 64 then false
  else if !validLen d 32 then false
  else
    let rec enc (vs : List TVal) (acc : List Item) : Option (List Item) :=
      match vs with
      | [] => some acc.reverse
      | v :: r => match encode v with | none => none | some i => enc r (i :: acc)
    match enc vals [] with
    | none => false
    | some is => digest (ctx ++ is ++ [⟨str "Decommitment", d⟩]) == c

def handle (op : String) (inp : Json) : Json :=
  match op with
  | "digest" =>
    let (is, bad) := writeEach (parseSeq inp "items")
    jobj [("sum", toHex (digest is)), ("bad", Json.num (JsonNumber.fromInt bad))]
  | "pair" =>
    let a := parseSeq inp "a"
    let b := parseSeq inp "b"
    let (ia, ea) := writeEach a
    let (ib, eb) := writeEach b
    -- semantic identity of the two value sequences (refused values write nothing)
    let ka := (a.filter fun v => (encode v).isSome).map canon
    let kb := (b.filter fun v => (encode v).isSome).map canon
    jobj [("da", toHex (digest ia)), ("db", toHex (digest ib)),
          ("ea", Json.num (JsonNumber.fromInt ea)), ("eb", Json.num (JsonNumber.fromInt eb)),
          ("same", decide (ka = kb))]
  | "commit" =>
    let (ctx, _) := writeEach (parseSeq inp "ctx")
    let vals := parseSeq inp "items"
    let nonce := jhex inp "nonce"
    if vals.any (fun v => (encode v).isNone) then jobj [("err", true)]
    else
      let (is, _) := writeEach vals
      jobj [("err", false), ("c", toHex (digest (ctx ++ is ++ [⟨str "Decommitment", nonce⟩]))), ("d", toHex nonce)]
  | "decommit" =>
    let (ctx, _) := writeEach (parseSeq inp "ctx")
    jobj [("ok", decommit ctx (jhex inp "c") (jhex inp "d") (parseSeq inp "items"))]
  | _ => jobj [("error", "unknown op")]

end Mps.Drv.Frame
