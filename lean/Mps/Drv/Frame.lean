import Mps.Json
import Mps.Typed
import Mps.Commit
import Mps.Blake3
/- Driver side of suite `frame` (C19): digests, adversarial pairs, commit / decommit. -/
namespace Mps.Drv.Frame
open Lean Mps

def optB (j : Json) (k : String) (f : Bytes → TVal) : TVal :=
  match jhexOpt j k with | none => .nilv | some b => f b

def parseTV (j : Json) : TVal :=
  match jstr j "t" with
  | "bytes" => optB j "hex" .bytes
  | "bigint" => if jisNull j "v" then .nilv else let (n, a) := parseSHex (jstr j "v"); .bigint n a
  | "id" => if jhex j "hex" = [] then .nilv else .id (jhex j "hex")
  | "ids" => if jisNull j "ids" then .nilv else
      .ids ((jarr j "ids").map fun x => (ofHex (x.getStr?.toOption.getD "")).getD [])
  | "rid" => optB j "hex" .rid
  | "com" => optB j "hex" .com
  | "decom" => optB j "hex" .decom
  | "thr" => .thr (jnat j "n")
  | "rnd" => .rnd (jnat j "n")
  | "sigmsg" => match jhexOpt j "hex" with | none => .sigmsgNil | some b => .sigmsg b
  | "bwd" => optB j "hex" (.bwd (jhex j "dom"))
  | "point" => .point (jhex j "hex")
  | "scalar" => .scalar (jhex j "hex")
  | "ct" => .ct (jbig j "v")
  | "pk" => .pk (jbig j "n")
  | "ped" => .ped (jbig j "n") (jbig j "s") (jbig j "tt")
  | "elg" => .elg (jhex j "l") (jhex j "m")
  | _ => .opaque (jhex j "dom") (jhex j "hex")

def parseSeq (j : Json) (k : String) : List TVal := (jarr j k).map parseTV

/-- values written one `WriteAny` call each: refused ones are skipped, the rest are written -/
def writeEach (vs : List TVal) : List Item × Int :=
  let rec go (vs : List TVal) (idx : Nat) (acc : List Item) (bad : Int) : List Item × Int :=
    match vs with
    | [] => (acc.reverse, bad)
    | v :: rest =>
      match encode v with
      | none => go rest (idx + 1) acc (if bad < 0 then idx else bad)
      | some i => go rest (idx + 1) (i :: acc) bad
  go vs 0 [] (-1)

def H (b : Bytes) : Bytes := Blake3.hashXof b 64
def digest (items : List Item) : Bytes := digestWith H items

def handle (op : String) (inp : Json) : Json :=
  match op with
  | "digest" =>
    let (is, bad) := writeEach (parseSeq inp "items")
    jobj [("sum", toHex (digest is)), ("bad", Json.num (JsonNumber.fromInt bad))]
  | "pair" =>
    let a := parseSeq inp "a"
    let b := parseSeq inp "b"
    let (ia, ea) := writeEach a
    let (ib, eb) := writeEach b
    -- semantic identity of the two value sequences (refused values write nothing)
    let ka := a.filter fun v => (encode v).isSome
    let kb := b.filter fun v => (encode v).isSome
    jobj [("da", toHex (digest ia)), ("db", toHex (digest ib)),
          ("ea", Json.num (JsonNumber.fromInt ea)), ("eb", Json.num (JsonNumber.fromInt eb)),
          ("same", semEqList ka kb)]
  | "commit" =>
    let (ctx, _) := writeEach (parseSeq inp "ctx")
    let vals := parseSeq inp "items"
    let nonce := jhex inp "nonce"
    match commitWith H ctx vals nonce with
    | none => jobj [("err", true)]
    | some (c, d) => jobj [("err", false), ("c", toHex c), ("d", toHex d)]
  | "decommit" =>
    let (ctx, _) := writeEach (parseSeq inp "ctx")
    jobj [("ok", decommitWith H ctx (jhex inp "c") (jhex inp "d") (parseSeq inp "items"))]
  | _ => jobj [("error", "unknown op")]

end Mps.Drv.Frame
