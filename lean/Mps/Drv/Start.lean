import Mps.Json
import Mps.Start
import MpsGen.Start
import MpsGen.Session
import Mps.StartTables
/- Driver side of suite `start` (C20): the model's decision on the described parameters. -/
namespace Mps.Drv.Start
open Lean Mps Mps.Start

def parseTri (s : String) : Tri :=
  match s with
  | "ok" => .good
  | "nil" => .absent
  | _ => .bad       -- "zero", "identity", "partial"

def parseEntries (j : Json) (k : String) : Option (List (Bytes × Tri)) :=
  if jisNull j k then none else
    some ((jarr j k).map fun e =>
      match e.getArr? with
      | .ok a => ((ofHex ((a[0]!).getStr?.toOption.getD "")).getD [], parseTri ((a[1]!).getStr?.toOption.getD ""))
      | .error _ => ([], Tri.bad))

def parseCfg (j : Json) : Cfg :=
  { group := jbool j "group", id := jhex j "id", thr := jint j "thr", secret := parseTri (jstr j "secret"),
    aux := jbool j "aux", shares := parseEntries j "shares" }

def parsePresig (j : Json) : Presig :=
  { r := parseTri (jstr j "r"), k := parseTri (jstr j "k"), chi := parseTri (jstr j "chi"), idLen := jnat j "id",
    rbar := parseEntries j "rbar", s := parseEntries j "s" }

def parseParams (j : Json) : Params :=
  { group := jbool j "group", self := jhex j "self", other := jhex j "other",
    ids := (jarr j "ids").map fun x => (ofHex (x.getStr?.toOption.getD "")).getD [],
    thr := jint j "thr", msgLen := jnat j "msglen",
    cfg := if jisNull j "cfg" then none else some (parseCfg (jget j "cfg")),
    presig := if jisNull j "presig" then none else some (parsePresig (jget j "presig")) }

def parseFn (s : String) : Option Fn :=
  match s with
  | "cmp.Keygen" => some .cmpKeygen | "cmp.Refresh" => some .cmpRefresh | "cmp.Sign" => some .cmpSign
  | "cmp.Presign" => some .cmpPresign | "cmp.PresignOnline" => some .cmpPresignOnline
  | "frost.Keygen" => some .frostKeygen | "frost.KeygenTaproot" => some .frostKeygenTaproot
  | "frost.Refresh" => some .frostRefresh | "frost.RefreshTaproot" => some .frostRefreshTaproot
  | "frost.Sign" => some .frostSign | "frost.SignTaproot" => some .frostSignTaproot
  | "doerner.Keygen" => some .doernerKeygen | "doerner.RefreshReceiver" => some .doernerRefreshReceiver
  | "doerner.RefreshSender" => some .doernerRefreshSender | "doerner.SignReceiver" => some .doernerSignReceiver
  | "doerner.SignSender" => some .doernerSignSender
  | _ => none

def outStr : Out → String
  | .ok => "ok" | .err => "err" | .crash => "crash"

/-- which guards the tree contains: a group counts as present when every regenerated table it touches equals
    the pinned variant with the guards (Mps/StartTables.lean, written by bin/mkpins) -/
def currentCode : Code :=
  { groupGuard := MpsGen.Start.cmpKeygenStart == Pinned.fixed.cmpKeygenStart
      && MpsGen.Start.frostKeygenCommon == Pinned.fixed.frostKeygenCommon
      && MpsGen.Start.doernerStartKeygen == Pinned.fixed.doernerStartKeygen,
    idGuard := MpsGen.Session.newSessionGuards == Pinned.fixed.newSessionGuards,
    cmpValidate := MpsGen.Start.cmpRefresh == Pinned.fixed.cmpRefresh && MpsGen.Start.cmpSign == Pinned.fixed.cmpSign
      && MpsGen.Start.cmpPresign == Pinned.fixed.cmpPresign && MpsGen.Start.cmpPresignOnline == Pinned.fixed.cmpPresignOnline,
    frostValidate := MpsGen.Start.frostRefresh == Pinned.fixed.frostRefresh
      && MpsGen.Start.frostRefreshTaproot == Pinned.fixed.frostRefreshTaproot
      && MpsGen.Start.frostSign == Pinned.fixed.frostSign && MpsGen.Start.frostSignTaproot == Pinned.fixed.frostSignTaproot
      && MpsGen.Start.frostSignCommon == Pinned.fixed.frostSignCommon
      && MpsGen.Start.frostKeygenCommon == Pinned.fixed.frostKeygenCommon,
    doernerValidate := MpsGen.Start.doernerRefreshReceiver == Pinned.fixed.doernerRefreshReceiver
      && MpsGen.Start.doernerRefreshSender == Pinned.fixed.doernerRefreshSender
      && MpsGen.Start.doernerSignReceiver == Pinned.fixed.doernerSignReceiver
      && MpsGen.Start.doernerSignSender == Pinned.fixed.doernerSignSender,
    presigNilSafe := MpsGen.Start.presigValidate == Pinned.fixed.presigValidate }

def handle (op : String) (inp : Json) : Json :=
  match op with
  | "start" =>
    match parseFn (jstr inp "fn") with
    | none => jobj [("error", "unknown start function")]
    | some fn =>
      let p := parseParams (jget inp "p")
      jobj [("outcome", outStr (startSpec fn p)), ("coded", outStr (startAsCoded currentCode fn p))]
  | _ => jobj [("error", "unknown op")]

end Mps.Drv.Start
