import Mps.Json
import Mps.OT.Concrete
/- Driver side of suite `ot` (C13): bit-exact recomputation of every layer of internal/ot from the
   logged random values, and the relations of the property judged on the values the real code
   produced (the `dump` objects). -/
namespace Mps.Drv.OT
open Lean Mps Mps.OT

def hexOf (x : Json) : Bytes := (ofHex (x.getStr?.toOption.getD "")).getD []
def jhexList (j : Json) (k : String) : List Bytes := (jarr j k).map hexOf
/-- list of little-endian blocks -/
def jleList (j : Json) (k : String) : List Nat := (jhexList j k).map leNat
/-- list of big-endian scalars -/
def jscList (j : Json) (k : String) : List Nat := (jhexList j k).map unbe
def jscPairs (j : Json) (k : String) : List (Nat × Nat) :=
  (jarr j k).map fun p =>
    match p.getArr? with
    | .ok a => (unbe (hexOf (a.getD 0 Json.null)), unbe (hexOf (a.getD 1 Json.null)))
    | .error _ => (0, 0)

def scHex (x : Nat) : String := toHex (beN 32 x)
def blkHex (x : Nat) : String := toHex (leBytes otBytes x)

def ctxOf (nonce : Bytes) : List Item := [⟨str "verif nonce", nonce⟩]

def parseSetup (j : Json) : CorreSendSetup × CorreRecvSetup :=
  ({ delta := leNat (jhex j "delta"), kDelta := jleList j "kdelta" },
   { k0 := jleList j "k0", k1 := jleList j "k1" })

/-- decidable form of `SetupRel` -/
def setupRelB (ss : CorreSendSetup) (rs : CorreRecvSetup) : Bool :=
  decide (ss.delta < 2 ^ otParam) &&
  (List.range otParam).all fun i =>
    ss.kDelta.getD i 0 == (if ss.delta.testBit i then rs.k1.getD i 0 else rs.k0.getD i 0)

def firstDiff (checks : List (String × Bool)) : String :=
  match checks.find? (fun c => !c.2) with
  | some (n, _) => "model differs from implementation in " ++ n
  | none => ""

def result (checks : List (String × Bool)) (props : List (String × Bool)) : Json :=
  jobj ([("recomputed", Json.bool (checks.all (·.2)))] ++ props.map (fun p => (p.1, Json.bool p.2))
        ++ [("err", Json.str (firstDiff checks))])

def q := Mps.OT.q
def O := scalarOps

def pointItem (enc : Bytes) : Item := ⟨str "*curve.Secp256k1Point", enc⟩

def handle (op : String) (inp : Json) : Json :=
  -- an honest run of a layer that returned an error (the harness passes it on as the observation): never expected - the
  -- theorems say honest runs complete (random_ot_response_complete, kos_check_complete, multiply_correct, ...)
  if jstr inp "obsErr" != "" && op != "mulseq" && op != "extbig" then
    jobj [("recomputed", false), ("rel", false), ("check", false), ("choice", false), ("sum", false),
          ("err", "model: an honest run never aborts")] else
  match op with
  | "bitat" =>
    let i := jnat inp "i"
    let data := jhex inp "data"
    let b := (bitAtBytes i data).toNat
    let b' := if (leNat data).testBit i then 1 else 0
    jobj [("bit", if b = b' then Json.num b else Json.num 99)]
  | "transpose" =>
    let l := jnat inp "l"
    let cols := jleList inp "cols"
    jobj [("rows", Json.arr ((transposeBits l cols).map fun r => Json.str (blkHex r)).toArray)]
  | "accumulate" =>
    let f := accumulate (leNat (jhex inp "f")) (leNat (jhex inp "a")) (leNat (jhex inp "b"))
    jobj [("f", toHex (leBytes 32 f))]
  | "fork" =>
    let ctx := ctxOf (jhex inp "nonce")
    let forked := if jisNull inp "bytes" then forkNilBytes ctx (jstr inp "domain")
                  else ctx ++ [⟨str (jstr inp "domain"), jhex inp "bytes"⟩]
    jobj [("sum", toHex (ctxDigest forked 0 64)), ("same_as_clone", ctxDigest forked 0 64 == ctxDigest ctx 0 64)]
  | "gadget" =>
    let h := concreteHash (ctxOf (jhex inp "nonce")) (inflate gadgetLen)
    jobj [("gadget", Json.arr ((makeGadget O h).map fun s => Json.str (scHex s)).toArray),
          ("scalarBytes", Json.num scalarBits)]
  | "encode" =>
    let noise := jscList inp "noise"
    let c := encode O (unbe (jhex inp "beta")) noise (leNat (jhex inp "gamma"))
    jobj [("choices", toHex (leBytes ((scalarBits + noise.length) / 8) c))]
  | "rot" =>
    let nonce := jhex inp "nonce"
    let s := rotSetupSend secpOps (unbe (jhex inp "b"))
    match rotRun secpOps (rotHash nonce) s (jnat inp "choice" == 1) (unbe (jhex inp "a")) with
    | none => jobj [("err", "model: instance aborted")]
    | some t =>
      jobj [("err", ""), ("abytes", toHex t.aBytes), ("challenge", blkHex t.challenge),
            ("response", blkHex t.response), ("d0", blkHex t.decommit0), ("d1", blkHex t.decommit1),
            ("rc", blkHex t.randChoice), ("r0", blkHex t.rand0), ("r1", blkHex t.rand1),
            ("agree", t.randChoice == (if jnat inp "choice" == 1 then t.rand1 else t.rand0))]
  | "setup" =>
    let b := unbe (jhex inp "b") % q
    let delta := leNat (jhex inp "delta")
    let as := (jscList inp "as").map (· % q)
    let s := rotSetupSend secpOps b
    -- the Schnorr proof wrote (commitment, public key, generator) into both parties' hashes
    let ctx := ctxOf (jhex inp "nonce") ++
      [pointItem (jhex inp "proofC"), pointItem (jhex inp "B"), pointItem (Secp.encode Secp.G)]
    let Hn := fun i => rotHash (setupNonce ctx i)
    let dump := jget inp "dump"
    let (dss, drs) := parseSetup (jget dump "setup")
    match correSetupTraces secpOps Hn 0 s delta as otParam with
    | none => jobj [("recomputed", false), ("rel", setupRelB dss drs), ("err", "model: setup aborted")]
    | some ts =>
      result
        [ ("B", Secp.encode s.B == jhex inp "B"),
          ("ABytes", ts.map (·.aBytes) == jhexList dump "abytes"),
          ("Challenge", ts.map (·.challenge) == jleList dump "challenge"),
          ("Response", ts.map (·.response) == jleList dump "response"),
          ("Decommit0", ts.map (·.decommit0) == jleList dump "d0"),
          ("Decommit1", ts.map (·.decommit1) == jleList dump "d1"),
          ("Delta", dss.delta == delta),
          ("K_Delta", ts.map (·.randChoice) == dss.kDelta),
          ("K_0", ts.map (·.rand0) == drs.k0),
          ("K_1", ts.map (·.rand1) == drs.k1) ]
        [ ("rel", setupRelB dss drs) ]
  | "corre" =>
    let (ss, rs) := parseSetup (jget inp "setup")
    let cb := jhex inp "choices"
    let l := 8 * cb.length
    let x := leNat cb
    let h := concreteHash (ctxOf (jhex inp "nonce")) l
    let (U, T) := correReceive h rs l x
    let Q := correSend h ss l U
    let dump := jget inp "dump"
    let dU := jleList dump "U"
    let dT := jleList dump "T"
    let dQ := jleList dump "Q"
    result [("U", U == dU), ("T", T == dT), ("Q", Q == dQ)]
      [("rel", dQ.length == l && dT.length == l &&
          (List.range l).all fun j => dQ.getD j 0 == (dT.getD j 0 ^^^ maskBit (x.testBit j) ss.delta))]
  | "ext" =>
    let (ss, rs) := parseSetup (jget inp "setup")
    let cb := jhex inp "choices"
    let l := 8 * cb.length
    let x := leNat cb
    let h := concreteHash (ctxOf (jhex inp "nonce")) (inflate l)
    let (msg, VC) := extReceive h rs l x (leNat (jhex inp "extra"))
    let dump := jget inp "dump"
    let dmsg : ExtMsg := { U := jleList dump "U", X := leNat (jhex dump "X"), T := leNat (jhex dump "T") }
    let dV0 := jleList dump "V0"
    let dV1 := jleList dump "V1"
    let dVC := jleList dump "VC"
    let sent := extSend h ss l dmsg
    result [("U", msg.U == dmsg.U), ("X", msg.X == dmsg.X), ("T", msg.T == dmsg.T), ("VChoices", VC == dVC),
            ("V0/V1", sent == some (dV0, dV1))]
      [("check", sent.isSome),
       ("choice", dVC.length == l && (List.range l).all fun i =>
          dVC.getD i 0 == (if x.testBit i then dV1.getD i 0 else dV0.getD i 0))]
  | "additive" =>
    if jbool inp "honest" then
      -- the harness reports an honest batch that did not complete: never expected (the masking loops
      -- are in range for every batch, `additive_mask_loop_in_range`)
      jobj [("required", "an honest additive OT completes with recv + send = choice * alpha (additive_sum)"),
            ("coded_mask_loop_in_range", (maskLoopCoded (List.replicate (jnat inp "batch") 32) 0 64 0).isSome)]
    else
    let (ss, rs) := parseSetup (jget inp "setup")
    let cb := jhex inp "choices"
    let l := 8 * cb.length
    let x := leNat cb
    let alpha := (unbe (jhex inp "alpha0"), unbe (jhex inp "alpha1"))
    let h := concreteHash (ctxOf (jhex inp "nonce")) (inflate l)
    let (msg, VC) := extReceive h rs l x (leNat (jhex inp "extra"))
    let dump := jget inp "dump"
    let dComb := jscPairs dump "combined"
    let dSend := jscPairs dump "send"
    let dRecv := jscPairs dump "recv"
    match extSend h ss l msg with
    | none => jobj [("recomputed", false), ("sum", false), ("err", "model: extended OT check failed")]
    | some (V0, V1) =>
      let (comb, send) := additiveSend O h V0 V1 l alpha
      let recv := additiveRecv O h VC l x comb
      result [("CombinedPads", comb == dComb), ("send result", send == dSend), ("receive result", recv == dRecv)]
        [("sum", dSend.length == l && dRecv.length == l && (List.range l).all fun i =>
            let s := dSend.getD i (0, 0)
            let r := dRecv.getD i (0, 0)
            (r.1 + s.1) % q == (if x.testBit i then alpha.1 else 0) &&
            (r.2 + s.2) % q == (if x.testBit i then alpha.2 else 0))]
  | "extbig" =>
    -- a batch beyond 2^16 rows: on every dumped row the receiver's pad is the sender's pad for its choice bit
    let x := leNat (jhex inp "choices")
    let rows := jarr inp "rows"
    jobj [("choice", jstr inp "obsErr" == "" && !rows.isEmpty && rows.all fun r =>
      jstr r "vc" == (if x.testBit (jnat r "i") then jstr r "v1" else jstr r "v0"))]
  | "mulseq" =>
    -- several multiplications on one setup with running context hashes: every use must succeed and its two shares add up
    -- to the product
    let runs := jarr inp "runs"
    let okAll := jstr inp "obsErr" == "" && runs.length == jnat inp "uses" && runs.all fun r =>
      (unbe (jhex r "shareS") + unbe (jhex r "shareR")) % q == (unbe (jhex r "alpha") * unbe (jhex r "beta")) % q
    jobj [("sum", okAll), ("err", "")]
  | "mul" =>
    let (ss, rs) := parseSetup (jget inp "setup")
    let alpha := unbe (jhex inp "alpha")
    let beta := unbe (jhex inp "beta")
    let alpha1 := unbe (jhex inp "alpha1") % q
    let gamma := leNat (jhex inp "gamma")
    let extra := leNat (jhex inp "extra")
    let h := concreteHash (ctxOf (jhex inp "nonce")) (inflate gadgetLen)
    let dump := jget inp "dump"
    let dS := unbe (jhex dump "shareS")
    let dR := unbe (jhex dump "shareR")
    let sumOk := (dS + dR) % q == (alpha * beta) % q
    let (choices, msg, VC) := mulReceiverRound1 O h rs beta gamma extra
    match mulSenderRound1 O h ss (alpha, alpha1) msg with
    | none => jobj [("recomputed", false), ("sum", sumOk), ("err", "model: sender aborted")]
    | some (m, shareS) =>
      match mulReceiverRound2 O h choices msg.U VC m with
      | none => jobj [("recomputed", false), ("sum", sumOk), ("err", "model: receiver check failed")]
      | some shareR =>
        -- Σ cᵢ·gᵢ = β on the DUMPED choice vector, with the model's gadget
        let dChoices := leNat (jhex dump "choices")
        let gadget := makeGadget O h
        let gsum := O.dot ((List.range gadget.length).map fun i => O.ofBit (dChoices.testBit i)) gadget
        result
          [ ("choices", choices == dChoices), ("U", msg.U == jleList dump "U"),
            ("X", msg.X == leNat (jhex dump "X")), ("T", msg.T == leNat (jhex dump "T")),
            ("CombinedPads", m.combined == jscPairs dump "combined"),
            ("RCheck", m.rCheck == jscList dump "rcheck"), ("UCheck", m.uCheck == unbe (jhex dump "ucheck")),
            ("sender share", shareS == dS), ("receiver share", shareR == dR),
            ("gadget·choices = beta", gsum == beta % q) ]
          [ ("sum", sumOk) ]
  | "alt" =>
    let alpha := unbe (jhex inp "alpha")
    let beta := unbe (jhex inp "beta")
    let outcome := jstr inp "outcome"
    let ok := outcome == "error" ||
      (outcome == "completed" &&
        (unbe (jhex inp "shareS") + unbe (jhex inp "shareR")) % q == (alpha * beta) % q)
    if outcome == "panic" then
      jobj [("ok", false), ("required", "an error on the checking side or a still-correct product")]
    else jobj [("ok", ok)]
  | _ => jobj [("error", "unknown op")]

end Mps.Drv.OT
