import Mps.Bytes
/-
  secp256k1 (SEC 2 v2 §2.4.1: y² = x³ + 7 over F_p) as an executable, core-only oracle:
  affine group law, scalar multiplication, SEC1 compressed encoding, BIP-340 `lift_x`.
  Plain `Nat` arithmetic (GMP-backed at run time); no Mathlib, no `partial`.

  `mulAffine` is the textbook affine double-and-add and serves as the specification;
  `mul` computes the same function through Jacobian coordinates (one inversion in total).
-/
namespace Mps.Secp

/-- field prime -/
def p : Nat := 2^256 - 2^32 - 977
/-- group order -/
def n : Nat := 0xFFFFFFFFFFFFFFFFFFFFFFFFFFFFFFFEBAAEDCE6AF48A03BBFD25E8CD0364141
/-- curve constant: y² = x³ + curveB -/
def curveB : Nat := 7

inductive Pt
  | inf
  | aff (x y : Nat)
  deriving DecidableEq, Repr, Inhabited

def G : Pt :=
  .aff 0x79BE667EF9DCBBAC55A06295CE870B07029BFCDB2DCE28D959F2815B16F81798
       0x483ADA7726A3C4655DA4FBFC0E1108A8FD17B448A68554199C47D08FFB10D4B8

/-! ## Modular arithmetic -/

/-- right-to-left square-and-multiply; `fuel` bounds the bit length of `e` -/
def powModAux (m : Nat) : Nat → Nat → Nat → Nat → Nat
  | 0,        _,   _, acc => acc
  | fuel + 1, sq,  e, acc =>
    if e = 0 then acc
    else powModAux m fuel (sq * sq % m) (e / 2) (if e % 2 = 1 then acc * sq % m else acc)

/-- `b ^ e mod m` -/
def powMod (b e m : Nat) : Nat := powModAux m (e.log2 + 1) (b % m) e (1 % m)

/-- inverse modulo a prime `m` (Fermat: `a^(m-2)`); `0 ↦ 0` -/
def modInv (a m : Nat) : Nat := powMod a (m - 2) m

/-- `a - b` in F_p (for `a < p`; any `b`) -/
@[inline] def fsub (a b : Nat) : Nat := (a + (p - b % p)) % p

/-! ## Affine group law -/

def neg : Pt → Pt
  | .inf => .inf
  | .aff x y => .aff x ((p - y) % p)

/-- full affine addition law: infinity, inverse points, doubling, chord -/
def add : Pt → Pt → Pt
  | .inf, Q => Q
  | P, .inf => P
  | .aff x1 y1, .aff x2 y2 =>
    if x1 = x2 then
      if (y1 + y2) % p = 0 then .inf          -- Q = -P (this includes the case y = 0)
      else
        -- y1 = y2: tangent
        let l := 3 * x1 * x1 % p * modInv (2 * y1 % p) p % p
        let x3 := fsub (l * l % p) ((x1 + x2) % p)
        .aff x3 (fsub (l * fsub x1 x3 % p) y1)
    else
      let l := fsub y2 y1 * modInv (fsub x2 x1) p % p
      let x3 := fsub (l * l % p) ((x1 + x2) % p)
      .aff x3 (fsub (l * fsub x1 x3 % p) y1)

def onCurve : Pt → Bool
  | .inf => true
  | .aff x y => x < p && y < p && y * y % p == (x * x % p * x + curveB) % p

/-- left-to-right double-and-add over the bits `i-1 … 0` of `k` -/
def mulAffineAux (k : Nat) (P : Pt) : Nat → Pt → Pt
  | 0,     acc => acc
  | i + 1, acc =>
    let d := add acc acc
    mulAffineAux k P i (if k.testBit i then add d P else d)

/-- specification of scalar multiplication: naive affine double-and-add -/
def mulAffine (k : Nat) (P : Pt) : Pt :=
  if k = 0 then .inf else mulAffineAux k P (k.log2 + 1) .inf

/-! ## Jacobian coordinates: (X, Y, Z) ↦ (X/Z², Y/Z³); Z = 0 is infinity -/

structure JPt where
  X : Nat
  Y : Nat
  Z : Nat
  deriving Repr, Inhabited

def JPt.inf : JPt := ⟨1, 1, 0⟩

/-- doubling for a = 0 (dbl-2009-l) -/
def jdbl (P : JPt) : JPt :=
  if P.Z = 0 then JPt.inf else
  let A := P.X * P.X % p
  let B := P.Y * P.Y % p
  let C := B * B % p
  let t := (P.X + B) % p
  let D := 2 * fsub (fsub (t * t % p) A) C % p
  let E := 3 * A % p
  let F := E * E % p
  let X3 := fsub F (2 * D % p)
  let Y3 := fsub (E * fsub D X3 % p) (8 * C % p)
  let Z3 := 2 * P.Y % p * P.Z % p
  ⟨X3, Y3, Z3⟩

/-- mixed addition: Jacobian `P` plus affine `(x2, y2)` -/
def jaddMixed (P : JPt) (x2 y2 : Nat) : JPt :=
  if P.Z = 0 then ⟨x2, y2, 1⟩ else
  let ZZ := P.Z * P.Z % p
  let U2 := x2 * ZZ % p
  let S2 := y2 * P.Z % p * ZZ % p
  let H := fsub U2 P.X
  let r := fsub S2 P.Y
  if H = 0 then
    if r = 0 then jdbl P else JPt.inf
  else
    let HH := H * H % p
    let HHH := H * HH % p
    let V := P.X * HH % p
    let X3 := fsub (fsub (r * r % p) HHH) (2 * V % p)
    let Y3 := fsub (r * fsub V X3 % p) (P.Y * HHH % p)
    let Z3 := P.Z * H % p
    ⟨X3, Y3, Z3⟩

def JPt.toAffine (P : JPt) : Pt :=
  if P.Z = 0 then .inf else
  let zi := modInv P.Z p
  let zi2 := zi * zi % p
  .aff (P.X * zi2 % p) (P.Y * (zi2 * zi % p) % p)

def mulJacAux (k x y : Nat) : Nat → JPt → JPt
  | 0,     acc => acc
  | i + 1, acc =>
    let d := jdbl acc
    mulJacAux k x y i (if k.testBit i then jaddMixed d x y else d)

/-- scalar multiplication `k • P` (any `k : Nat`; the result is affine) -/
def mul (k : Nat) : Pt → Pt
  | .inf => .inf
  | .aff x y =>
    if k = 0 then .inf else (mulJacAux k (x % p) (y % p) (k.log2 + 1) JPt.inf).toAffine

/-! ## Square roots, encodings -/

/-- square root in F_p (`p ≡ 3 mod 4`): `a^((p+1)/4)` if that squares to `a`, else `none` -/
def sqrtModP (a : Nat) : Option Nat :=
  let r := powMod a ((p + 1) / 4) p
  if r * r % p = a % p then some r else none

/-- 32-byte big-endian x coordinate (infinity ↦ zeros) -/
def xBytes : Pt → Bytes
  | .inf => List.replicate 32 0
  | .aff x _ => beN 32 x

/-- 33-byte SEC1 compressed encoding; infinity ↦ 33 zero bytes -/
def encode : Pt → Bytes
  | .inf => List.replicate 33 0
  | .aff x y => (if y % 2 = 0 then 0x02 else 0x03) :: beN 32 x

/-- the point with abscissa `x` and ordinate of the given parity (`odd = true` ⇒ y odd) -/
def liftXParity (x : Nat) (odd : Bool) : Option Pt :=
  if x ≥ p then none else
  match sqrtModP ((x * x % p * x + curveB) % p) with
  | none => none
  | some y => some (.aff x (if (y % 2 == 1) == odd then y else (p - y) % p))

/-- BIP-340 `lift_x`: the even-y point with this x; `none` if `x ≥ p` or not on the curve -/
def liftX (x : Nat) : Option Pt := liftXParity x false

/-- strict SEC1 compressed decoding: exactly 33 bytes, prefix 02 or 03, `x < p`, x on curve -/
def decodeStrict (bs : Bytes) : Option Pt :=
  match bs with
  | [] => none
  | pre :: rest =>
    if rest.length ≠ 32 then none
    else if pre = 0x02 then liftXParity (unbe rest) false
    else if pre = 0x03 then liftXParity (unbe rest) true
    else none

/-! ## Self test -/

def selfTest : Bool :=
  let G2 := Pt.aff 0xC6047F9441ED7D6D3045406E95C07CD85C778E4B8CEF3CA7ABAC09B95C709EE5
                   0x1AE168FEA63DC339A3C58419466CEAEEF7F632653266D0E1236431A950CFE52A
  let G3 := Pt.aff 0xF9308A019258C31049344F85F89D5229B531C845836F99B08601F113BCE036F9
                   0x388F7B0F632DE8140FE337E62A37F3566500A99934C2231B6CB9FD7584B8E672
  let k1 := 0xAA5E28D6A97A2479A65527F7290311A3624D4CC0FA1578598EE3C2613BF99522
  let ks := [0, 1, 2, 3, 7, 255, 256, 2^128 + 1, 2^255, k1, n - 2, n - 1, n, n + 1, n + 5, 2^256 + 12345]
  p % 4 == 3
  && onCurve G && onCurve G2 && onCurve G3 && !onCurve (.aff 1 1)
  && add G G == G2 && add G2 G == G3 && add G G2 == G3
  && mul 1 G == G && mul 2 G == G2 && mul 3 G == G3
  && mul n G == .inf && mul (n - 1) G == neg G && mul 0 G == .inf && mul 5 .inf == .inf
  && add G (neg G) == .inf && add G .inf == G && add .inf G == G && add .inf .inf == .inf
  && neg .inf == .inf && neg (neg G3) == G3
  -- Jacobian `mul` agrees with the affine specification
  && ks.all (fun k => mul k G == mulAffine k G && onCurve (mul k G3))
  && [5, k1, n - 1].all (fun k => mul k G3 == mulAffine k G3 && mul k (neg G2) == mulAffine k (neg G2))
  -- (a + b)•G = a•G + b•G
  && mul (k1 + 12345) G == add (mul k1 G) (mul 12345 G)
  -- modular helpers
  && modInv 0 p == 0 && k1 * modInv k1 p % p == 1 && k1 * modInv k1 n % n == 1
  && powMod 2 10 1000 == 24 && powMod 5 0 7 == 1 && powMod 5 3 1 == 0 && powMod 0 0 7 == 1
  && (sqrtModP 4 == some 2 || sqrtModP 4 == some (p - 2))
  && sqrtModP (p - 1) == none  -- -1 is a non-residue since p ≡ 3 (mod 4)
  -- encodings
  && toHex (encode G) == "0279be667ef9dcbbac55a06295ce870b07029bfcdb2dce28d959f2815b16f81798"
  && toHex (encode G2) == "02c6047f9441ed7d6d3045406e95c07cd85c778e4b8cef3ca7abac09b95c709ee5"
  && toHex (encode (neg G)) == "0379be667ef9dcbbac55a06295ce870b07029bfcdb2dce28d959f2815b16f81798"
  && encode .inf == List.replicate 33 0
  && [G, G2, G3, neg G, neg G2, mul k1 G, neg (mul k1 G)].all (fun P => decodeStrict (encode P) == some P)
  && decodeStrict (encode .inf) == none
  && decodeStrict (0x04 :: xBytes G) == none
  && decodeStrict (0x02 :: xBytes G ++ [0]) == none
  && decodeStrict (0x02 :: (xBytes G).drop 1) == none
  && decodeStrict (0x02 :: beN 32 p) == none          -- x = p ≡ 0: not canonical
  && decodeStrict (0x02 :: beN 32 5) == none          -- 5³ + 7 is a non-residue
  && decodeStrict [] == none
  && liftX 5 == none && liftX p == none && liftX (p + 1) == none
  && liftX 0x79BE667EF9DCBBAC55A06295CE870B07029BFCDB2DCE28D959F2815B16F81798 == some G
  && liftX 0xF9308A019258C31049344F85F89D5229B531C845836F99B08601F113BCE036F9 == some G3
  && (liftX 1).map onCurve == some true && liftX 0 == none
  && xBytes G == beN 32 0x79BE667EF9DCBBAC55A06295CE870B07029BFCDB2DCE28D959F2815B16F81798

end Mps.Secp
