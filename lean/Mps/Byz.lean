import Mps.System
/-
  A session with ONE deviating (Byzantine) participant `x`. The honest parties `base.ids.filter (· != x)` run the
  handler model with the script `scriptFor base p`; the state of the session is again a `Sys` (the component of `x`
  is never touched and never read: what `x` "is" does not matter, only what it sends).

  A Byzantine schedule is a list of deliveries (recipient, message). A delivery (p, m) is possible when `p` is an
  honest party and
    * EITHER `m.frm = x`: the adversary sends ANYTHING under its own name (equivocation, malformed contents, failure
      flags, wrong echo stamps, contents of others replayed under its name, round-0 notices, other sessions …),
    * OR `m` is, at that moment, in the `out` list of the party `m.frm`, `m.frm` is an honest party, and `m` is
      addressed to `p` (`isFor`, which also says `m.frm ≠ p`): honest traffic in any order, with repetition, after
      any delay.
  Channels are authenticated: a message under an honest name is delivered only if that party emitted it.
  Core-only.
-/
namespace Mps.System
open Mps Mps.Handler

/-- the parties that follow the protocol -/
def honestIds (base : Script) (x : Bytes) : List Bytes := base.ids.filter (· != x)

/-- the delivery of `m` to `p` is possible in `σ` when `x` is the deviating party -/
def Sys.byzCanDeliver (base : Script) (x : Bytes) (σ : Sys) (p : Bytes) (m : Msg) : Bool :=
  (honestIds base x).contains p &&
  (m.frm == x || ((honestIds base x).contains m.frm && isFor m p && (σ m.frm).out.contains m))

def byzCausalFrom (H : Bytes → Bytes) (base : Script) (x : Bytes) (σ : Sys) : Sched → Bool
  | [] => true
  | e :: rest => σ.byzCanDeliver base x e.1 e.2 && byzCausalFrom H base x (σ.deliver H e.1 e.2) rest

/-- every delivery of the schedule is possible at the time it happens -/
def ByzCausal (H : Bytes → Bytes) (base : Script) (x : Bytes) (sched : Sched) : Bool :=
  byzCausalFrom H base x (Sys.init H base) sched

/-- the handler has left the round numbered `n` through the protocol's `Finalize`: it has completed with a result,
    or it is in (or has aborted in) a round with a larger number -/
def pastRound (s : State) (n : Nat) : Bool := s.result.isSome || decide (n < s.cur)

/-- the abort notice a handler with script `sc` sends (`abort` with an error) -/
def noticeOf (sc : Script) : Msg :=
  { ssid := some sc.ssid, frm := sc.self, to := [], proto := sc.proto, rnd := 0,
    data := some [], bcast := false, bv := none, dec := none }

/-- the errors of an honest party that are not a relayed notice of another honest party: a verdict against `x`
    (failed message, protocol abort naming only `x`, notice sent by `x`) or the culprit-less echo mismatch -/
def primaryErr (x : Bytes) : ErrKind → Bool
  | .msgFail f => f == x
  | .peerAbort f => f == x
  | .echoMismatch => true
  | .protoAbort cs => cs.all (· == x)
  | .finalizeErr => false
  | .stopped => false

end Mps.System
