import Mps.Sig
import MpsGen.Sig
/-
  Which variant of three functions of /repo the driver models is read off the tables the
  translator regenerates from the source on every run: the shipped code, or the code after the
  patches proposed in /verif/hooks (secp256k1-strict-prefix.diff, secp256k1-liftx-length.diff,
  ecdsa-sigethereum-reduce-r.diff). Any third shape of these functions matches neither table:
  the shipped model is then used and the obligations `gen_point_unmarshal` / `gen_liftx` /
  `gen_sig_ethereum` of MpsProps/C16.lean fail.
-/
namespace Mps.Sig.Variant
open Mps Mps.Secp Mps.Sig

def pointUnmarshalShipped : List String :=
  [ "len(data) != 33 => fmt.Errorf(\"invalid length for secp256k1Point: %d\", len(data))",
    "p.value.X.SetByteSlice(data[1:]) => fmt.Errorf(\"secp256k1Point.UnmarshalBinary: x coordinate out of range\")",
    "!secp256k1.DecompressY(&p.value.X, data[0] == 3, &p.value.Y) => fmt.Errorf(\"secp256k1Point.UnmarshalBinary: x coordinate not on curve\")",
    "p.value.Z.SetInt(1)",
    "p.value.X.SetByteSlice(data[1:])",
    "secp256k1.DecompressY(&p.value.X, data[0] == 3, &p.value.Y)" ]

def pointUnmarshalFixed : List String :=
  [ "len(data) != 33 => fmt.Errorf(\"invalid length for secp256k1Point: %d\", len(data))",
    "data[0] != 2 && data[0] != 3 => fmt.Errorf(\"secp256k1Point.UnmarshalBinary: invalid prefix byte: %#x\", data[0])",
    "p.value.X.SetByteSlice(data[1:]) => fmt.Errorf(\"secp256k1Point.UnmarshalBinary: x coordinate out of range\")",
    "!secp256k1.DecompressY(&p.value.X, data[0] == 3, &p.value.Y) => fmt.Errorf(\"secp256k1Point.UnmarshalBinary: x coordinate not on curve\")",
    "p.value.Z.SetInt(1)",
    "p.value.X.SetByteSlice(data[1:])",
    "secp256k1.DecompressY(&p.value.X, data[0] == 3, &p.value.Y)" ]

def liftXShipped : List String :=
  [ "out.value.X.SetByteSlice(data) => nil, fmt.Errorf(\"secp256k1Point.UnmarshalBinary: x coordinate out of range\")",
    "!secp256k1.DecompressY(&out.value.X, false, &out.value.Y) => nil, fmt.Errorf(\"secp256k1Point.UnmarshalBinary: x coordinate not on curve\")",
    "out.value.Z.SetInt(1)", "out.value.X.SetByteSlice(data)",
    "secp256k1.DecompressY(&out.value.X, false, &out.value.Y)" ]

def liftXFixed : List String :=
  "len(data) != 32 => nil, fmt.Errorf(\"secp256k1Point.LiftX: invalid length for an x coordinate: %d\", len(data))"
    :: liftXShipped

def sigEthereumShipped : List String × List String :=
  ([ "sig.S.IsOverHalfOrder()", "if IsOverHalfOrder: sig.S.Negate()", "sig.R.MarshalBinary()",
     "sig.S.MarshalBinary()", "make([]byte, 0, 65)", "append(rs, r...)", "append(rs, s...)",
     "if IsOverHalfOrder: copy(rs, rs[1:])", "if else: copy(rs, rs[1:])", "sig.R.UnmarshalBinary(r)" ],
   [ "if IsOverHalfOrder: v := rs[0] - 2", "if IsOverHalfOrder: rs[64] = v ^ 1",
     "if else: v := rs[0] - 2", "if else: rs[64] = v", "r[0] = rs[64] + 2" ])

def sigEthereumFixedTable : List String × List String :=
  ([ "sig.S.IsOverHalfOrder()", "if IsOverHalfOrder: sig.S.Negate()", "sig.R.MarshalBinary()",
     "sig.S.MarshalBinary()", "sig.R.XScalar().MarshalBinary()", "make([]byte, 0, 65)", "append(rs, r[0])",
     "append(rs, rModN...)", "append(rs, s...)",
     "if IsOverHalfOrder: copy(rs, rs[1:])", "if else: copy(rs, rs[1:])", "sig.R.UnmarshalBinary(r)" ],
   [ "if IsOverHalfOrder: v := rs[0] - 2", "if IsOverHalfOrder: rs[64] = v ^ 1",
     "if else: v := rs[0] - 2", "if else: rs[64] = v", "r[0] = rs[64] + 2", "if reduced: rs[64] |= 2" ])

/-- the source has the strict prefix check -/
def strictPrefix : Bool := MpsGen.Sig.pointUnmarshal == pointUnmarshalFixed
/-- the source has the length check in `LiftX` -/
def liftXLen : Bool := MpsGen.Sig.liftX == liftXFixed
/-- the source exports r mod n -/
def ethReduced : Bool := (MpsGen.Sig.sigEthereum, MpsGen.Sig.sigEthereumAssigns) == sigEthereumFixedTable

/-- the models of the code in the working tree -/
def decodeCur (bs : Bytes) : Option Pt := if strictPrefix then decodeFixed bs else decodeGo bs
def bipVerifyCur (pk m sig : Bytes) : Bool := if liftXLen then Bip340.verifyFixed pk m sig else Bip340.verifyGo pk m sig
def sigEthereumCur (R : Pt) (s : Nat) : Option Bytes × Option Pt × Nat :=
  if ethReduced then sigEthereumFixed decodeCur R s else sigEthereumGoWith decodeCur R s

end Mps.Sig.Variant
