import Mps.Handler
/-
  A session of n handlers (`Mps.Handler`) that all run the same scripted protocol: the global state is one
  handler state per party id, a step delivers one message to one party, a schedule is a list of such
  deliveries. A schedule is *causal* when every delivered message was, at the time of its delivery, in the `out`
  list of its sender and is addressed to the recipient (`isFor`): messages are delivered only after they were
  emitted — in any order, any number of times, interleaved arbitrarily across the parties, after any delay.
  Nothing else is assumed about the network. Core-only.
-/
namespace Mps.System
open Mps Mps.Handler

/-- the script of party `id`: all parties share ids, rounds, final round, protocol id, ssid and session items -/
def scriptFor (base : Script) (id : Bytes) : Script := { base with self := id }

/-- global state of a session: the handler of every party (only the ids of `base.ids` matter) -/
abbrev Sys := Bytes → State

/-- every party has built its handler (`NewMultiHandler`): the first round's messages are already emitted -/
def Sys.init (H : Bytes → Bytes) (base : Script) : Sys := fun id => Handler.init H (scriptFor base id)

/-- party `p` accepts `m` -/
def Sys.deliver (H : Bytes → Bytes) (σ : Sys) (p : Bytes) (m : Msg) : Sys :=
  fun q => if q = p then accept H (σ q) m else σ q

/-- a schedule: (recipient, message) pairs in the order of delivery -/
abbrev Sched := List (Bytes × Msg)

def Sys.runFrom (H : Bytes → Bytes) (σ : Sys) (sched : Sched) : Sys :=
  sched.foldl (fun τ e => τ.deliver H e.1 e.2) σ

/-- the session after the deliveries of `sched` -/
def Sys.run (H : Bytes → Bytes) (base : Script) (sched : Sched) : Sys := (Sys.init H base).runFrom H sched

/-- the delivery of `m` to `p` is possible in `σ`: `p` and the sender are parties, the sender's handler has
    emitted `m`, and `m` is addressed to `p` -/
def Sys.canDeliver (base : Script) (σ : Sys) (p : Bytes) (m : Msg) : Bool :=
  base.ids.contains p && base.ids.contains m.frm && isFor m p && (σ m.frm).out.contains m

def causalFrom (H : Bytes → Bytes) (base : Script) (σ : Sys) : Sched → Bool
  | [] => true
  | e :: rest => σ.canDeliver base e.1 e.2 && causalFrom H base (σ.deliver H e.1 e.2) rest

/-- every delivery of the schedule is possible at the time it happens -/
def Causal (H : Bytes → Bytes) (base : Script) (sched : Sched) : Bool := causalFrom H base (Sys.init H base) sched

/-- the messages delivered to `p`, in order -/
def delivered (sched : Sched) (p : Bytes) : List Msg := (sched.filter fun e => e.1 == p).map (·.2)

/-- everything emitted so far, by anybody, that is addressed to `p` -/
def Sys.emittedFor (base : Script) (σ : Sys) (p : Bytes) : List Msg :=
  base.ids.flatMap fun q => (σ q).out.filter fun m => isFor m p

/-- fair to the end: whatever was emitted for a party has been delivered to it -/
def Complete (base : Script) (σ : Sys) (sched : Sched) : Bool :=
  base.ids.all fun p => (σ.emittedFor base p).all fun m => (delivered sched p).contains m

end Mps.System
