import Mps.ZK.Transcript
/-
  M3: values of the `Public` / `Commitment` / `Proof` structs of `pkg/zk/*`, addressed by their Go field
  names (the same names the translator extracts into `MpsGen.ZK`), and the generic part of every
  `challenge()`: resolve the ordered selector list to values, write them on top of the caller's hash
  state, return the BLAKE3 output stream.
-/
namespace Mps.ZK
open Mps

/-- a field value; `none` models a nil pointer / nil interface -/
inductive Val where
  | nat     (b : Option Bytes)      -- *saferith.Nat (bytes of the announced length)
  | int     (z : Option Int)        -- *saferith.Int
  | big     (z : Option Int)        -- *big.Int
  | pt      (b : Option Bytes)      -- curve.Point (33-byte MarshalBinary; identity = 02 00…00)
  | sc      (b : Option Bytes)      -- curve.Scalar (32 bytes)
  | ct      (c : Option Nat)        -- *paillier.Ciphertext
  | pk      (n : Nat)               -- *paillier.PublicKey
  | ped     (p : Ped)               -- *pedersen.Parameters
  | modulus (n : Nat)               -- *saferith.Modulus
  | elg     (l m : Bytes)           -- *elgamal.Ciphertext
  | bool    (b : Bool)
  | list    (l : List Val)          -- [StatParam]T
  | missing
  deriving Repr, Inhabited

abbrev Rec := List (String × Val)

def Rec.get (r : Rec) (k : String) : Val :=
  match r.find? (fun kv => kv.1 == k) with
  | some kv => kv.2
  | none => .missing

/-- how a field value is handed to `hash.WriteAny` -/
def Val.toHV : Val → HV
  | .nat b => .nat b
  | .big none => .tv .nilv
  | .big (some z) => .tv (.bigint (decide (z < 0)) z.natAbs)
  | .pt none => .tv .nilv
  | .pt (some b) => .tv (.point b)
  | .sc none => .tv .nilv
  | .sc (some b) => .tv (.scalar b)
  | .ct none => .tv .nilv
  | .ct (some c) => .tv (.ct c)
  | .pk n => .tv (.pk n)
  | .ped p => .tv (.ped p.n p.s p.t)
  | .modulus n => .modulus n
  | .elg l m => .tv (.elg l m)
  | _ => .tv .nilv

/-! ## typed accessors -/

def Rec.natV (r : Rec) (k : String) : Option Nat :=
  match r.get k with | .nat (some b) => some (unbe b) | _ => none
def Rec.intV (r : Rec) (k : String) : Option Int :=
  match r.get k with | .int z => z | .big z => z | _ => none
def Rec.ctV (r : Rec) (k : String) : Option Nat :=
  match r.get k with | .ct c => c | _ => none
def Rec.pkV (r : Rec) (k : String) : Nat :=
  match r.get k with | .pk n => n | .modulus n => n | _ => 0
def Rec.pedV (r : Rec) (k : String) : Ped :=
  match r.get k with | .ped p => p | _ => default
def Rec.listV (r : Rec) (k : String) : List Val :=
  match r.get k with | .list l => l | _ => []

def identityEnc : Bytes := 0x02 :: List.replicate 32 0

/-- a point from its `MarshalBinary` form (the identity marshals as 02 00…00) -/
def decodePt (b : Bytes) : Secp.Pt :=
  if b = identityEnc then .inf else (Secp.decodeStrict b).getD .inf

/-- `none` = nil interface -/
def Rec.ptV (r : Rec) (k : String) : Option Secp.Pt :=
  match r.get k with | .pt (some b) => some (decodePt b) | _ => none
def Rec.scV (r : Rec) (k : String) : Option Nat :=
  match r.get k with | .sc (some b) => some (unbe b % Secp.n) | _ => none

def smul (k : Nat) (P : Secp.Pt) : Secp.Pt := Secp.mul (k % Secp.n) P
def padd (P Q : Secp.Pt) : Secp.Pt := Secp.add P Q
def G : Secp.Pt := Secp.G
def GEnc : Bytes := Secp.encode Secp.G

/-- the outcome of a verifier: `.ok b` = returned `b`, `.error why` = a Go panic -/
abbrev Verdict := Except String Bool

/-- method call on a point held in an interface: panics on a nil interface -/
def needPt (r : Rec) (k : String) : Except String Secp.Pt :=
  match r.ptV k with
  | some p => .ok p
  | none => .error s!"nil curve.Point in field {k}"
def needSc (r : Rec) (k : String) : Except String Nat :=
  match r.scV k with
  | some p => .ok p
  | none => .error s!"nil curve.Scalar in field {k}"
/-- dereference of a pointer the code does not guard -/
def needInt (r : Rec) (k : String) : Except String Int :=
  match r.intV k with
  | some z => .ok z
  | none => .error s!"nil integer in field {k}"
def needNat (r : Rec) (k : String) : Except String Nat :=
  match r.natV k with
  | some z => .ok z
  | none => .error s!"nil *saferith.Nat in field {k}"
def needCt (r : Rec) (k : String) : Except String Nat :=
  match r.ctV k with
  | some z => .ok z
  | none => .error s!"nil *paillier.Ciphertext in field {k}"

/-- a field that is a nil pointer / nil interface (or not there at all) -/
def Val.isNil : Val → Bool
  | .nat none | .int none | .big none | .pt none | .sc none | .ct none | .missing => true
  | _ => false

/-- the nil guards at the head of `IsValid` / `Verify` (`p.X == nil || p.Y == nil || …`): one of the fields is absent -/
def Rec.anyNil (r : Rec) (ks : List String) : Bool := ks.any fun k => (r.get k).isNil

/-- the decoder left the embedded `*Commitment` nil (no commitment field on the wire): `p.Commitment == nil` -/
def nilCommitment (prf : Rec) : Bool :=
  match prf.get "_nocommitment" with | .bool true => true | _ => false
def nilCommitmentPanic : String := "nil embedded *Commitment dereferenced"

/-! ## the generic part of `challenge()` -/

/-- a selector of `challenge()`: receiver ("public" / "commitment" / "" / "each") and field -/
abbrev Sel := String × String

/-- values selected from (public, proof) by an ordered selector list; `param` resolves bare parameters -/
def selectVals (sel : List Sel) (pub prf : Rec) (param : String → List Val) : List Val :=
  sel.flatMap fun s =>
    if s.1 == "public" then [pub.get s.2]
    else if s.1 == "commitment" then [prf.get s.2]
    else param s.2

/-- `err = hash.WriteAny(sel…)` then `hash.Digest()`:
    `.ok (some o)` stream, `.ok none` = `err != nil`, `.error` = panic -/
def challengeStream (pre : List Item) (vals : List Val) : Except String (Option Blake3.Output) :=
  match writeAll (vals.map Val.toHV) with
  | .error w => .error w
  | .ok none => .ok none
  | .ok (some is) => .ok (some (digestRoot (pre ++ is)))

end Mps.ZK
