import Mps.ZK.Rec
import Mps.ZK.Curve
/-
  M3: executable verifiers of the Paillier / Pedersen based proof systems
  zkenc, zklogstar, zkaffg, zkaffp, zkencelg, zkdec, zkmul, zkmulstar, zknth, zkfac
  (`pkg/zk/<name>/<name>.go`), transcribed check by check, in the order of the Go code (the order
  decides whether a malformed proof is rejected or reaches a panicking call).
  The challenge is `sample.IntervalScalar(hash.Digest(), group)` (±2²⁵⁶, 33 bytes) except for
  zknth and zkfac (`sample.IntervalL`).
-/
namespace Mps.ZK
open Mps

def noParam : String → List Val := fun _ => []


/-- `e` as an integer from the selected values; `none` = `challenge` returned an error -/
def challengeInt (pre : List Item) (sel : List Sel) (pub prf : Rec) (rd : Blake3.Output → Int) :
    Except String (Option Int) := do
  if nilCommitment prf then throw nilCommitmentPanic
  let o ← challengeStream pre (selectVals sel pub prf noParam)
  return o.map rd

/-- `lhs := pk.EncWithNonce(m, nonce)`; `rhs := K.Clone().Mul(pk, e).Add(pk, A)`; `lhs.Equal(rhs)` -/
def encEq (n : Nat) (m : Int) (nonce : Nat) (K : Nat) (e : Int) (A : Nat) : Verdict := do
  let lhs ← encWithNonce n m nonce
  return lhs == ctAdd n (ctMul n K e) A

/-- `[z]·base == [e]·X + B` with both scalars reduced mod q -/
def curveEq (z : Int) (base : Secp.Pt) (e : Int) (X B : Secp.Pt) : Bool :=
  smul (intMod z Secp.n) base == padd (smul (intMod e Secp.n) X) B

/-! ## zkenc: pub = {K, Prover, Aux}, proof = {S, A, C, Z1, Z2, Z3} -/
namespace Enc
def sel : List Sel :=
  [("public", "Aux"), ("public", "Prover"), ("public", "K"), ("commitment", "S"), ("commitment", "A"), ("commitment", "C")]

def challenge (pre : List Item) (pub prf : Rec) := challengeInt pre sel pub prf intervalScalar

def verify (pre : List Item) (pub prf : Rec) : Verdict := do
  let n := pub.pkV "Prover"
  let aux := pub.pedV "Aux"
  -- IsValid: every field is needed below: a proof with a missing field is not valid
  if nilCommitment prf || prf.anyNil ["Z1", "Z2", "Z3", "S", "A", "C"] then return false
  if !validateCiphertext n (prf.ctV "A") then return false
  if !isValidNatModN n (prf.natV "Z2") then return false
  if !isInIntervalLEps (prf.intV "Z1") then return false
  match ← challenge pre pub prf with
  | none => return false
  | some e =>
    if !aux.verify (prf.intV "Z1") (prf.intV "Z3") e (prf.natV "C") (prf.natV "S") then return false
    let z1 ← needInt prf "Z1"
    let z2 ← needNat prf "Z2"
    let K ← needCt pub "K"
    let A ← needCt prf "A"
    encEq n z1 z2 K e A
end Enc

/-! ## zklogstar: pub = {C, X, G, Prover, Aux}, proof = {S, A, Y, D, Z1, Z2, Z3} -/
namespace Logstar
def sel : List Sel :=
  [("public", "Aux"), ("public", "Prover"), ("public", "C"), ("public", "X"), ("public", "G"),
   ("commitment", "S"), ("commitment", "A"), ("commitment", "Y"), ("commitment", "D")]

/-- `public.G == nil` is replaced by the base point before the challenge is computed -/
def fixG (pub : Rec) : Rec :=
  match pub.get "G" with
  | .pt (some _) => pub
  | _ => ("G", Val.pt (some GEnc)) :: pub

def challenge (pre : List Item) (pub prf : Rec) := challengeInt pre sel (fixG pub) prf intervalScalar

def verify (pre : List Item) (pub prf : Rec) : Verdict := do
  let n := pub.pkV "Prover"
  let aux := pub.pedV "Aux"
  -- every field is needed below: a proof with a missing field is not valid
  if nilCommitment prf || prf.anyNil ["Z1", "Z2", "Z3", "S", "A", "Y", "D"] then return false
  if !validateCiphertext n (prf.ctV "A") then return false
  let Y ← needPt prf "Y"
  if isIdentity Y then return false
  if !isValidNatModN n (prf.natV "Z2") then return false
  let pub := fixG pub
  if !isInIntervalLEps (prf.intV "Z1") then return false
  match ← challenge pre pub prf with
  | none => return false
  | some e =>
    if !aux.verify (prf.intV "Z1") (prf.intV "Z3") e (prf.natV "D") (prf.natV "S") then return false
    let z1 ← needInt prf "Z1"
    let z2 ← needNat prf "Z2"
    let C ← needCt pub "C"
    let A ← needCt prf "A"
    if !(← encEq n z1 z2 C e A) then return false
    let Gp ← needPt pub "G"
    let X ← needPt pub "X"
    return curveEq z1 Gp e X Y
end Logstar

/-! ## zkaffg: pub = {Kv, Dv, Fp, Xp, Prover, Verifier, Aux}, proof = {A, Bx, By, E, S, F, T, Z1..Z4, W, Wy} -/
namespace Affg
def sel : List Sel :=
  [("public", "Aux"), ("public", "Prover"), ("public", "Verifier"),
   ("public", "Kv"), ("public", "Dv"), ("public", "Fp"), ("public", "Xp"),
   ("commitment", "A"), ("commitment", "Bx"), ("commitment", "By"),
   ("commitment", "E"), ("commitment", "S"), ("commitment", "F"), ("commitment", "T")]

def challenge (pre : List Item) (pub prf : Rec) := challengeInt pre sel pub prf intervalScalar

def verify (pre : List Item) (pub prf : Rec) : Verdict := do
  let np := pub.pkV "Prover"
  let nv := pub.pkV "Verifier"
  let aux := pub.pedV "Aux"
  -- every field is needed below: a proof with a missing field is not valid
  if nilCommitment prf || prf.anyNil ["Z1", "Z2", "Z3", "Z4", "W", "Wy", "A", "Bx", "By", "E", "S", "F", "T"] then return false
  if !validateCiphertext nv (prf.ctV "A") then return false
  if !validateCiphertext np (prf.ctV "By") then return false
  if !isValidNatModN np (prf.natV "Wy") then return false
  if !isValidNatModN nv (prf.natV "W") then return false
  let Bx ← needPt prf "Bx"
  if isIdentity Bx then return false
  if !isInIntervalLEps (prf.intV "Z1") then return false
  if !isInIntervalLPrimeEps (prf.intV "Z2") then return false
  match ← challenge pre pub prf with
  | none => return false
  | some e =>
    if !aux.verify (prf.intV "Z1") (prf.intV "Z3") e (prf.natV "E") (prf.natV "S") then return false
    if !aux.verify (prf.intV "Z2") (prf.intV "Z4") e (prf.natV "F") (prf.natV "T") then return false
    let z1 ← needInt prf "Z1"
    let z2 ← needInt prf "Z2"
    let w ← needNat prf "W"
    let wy ← needNat prf "Wy"
    let Kv ← needCt pub "Kv"
    let Dv ← needCt pub "Dv"
    let Fp ← needCt pub "Fp"
    let A ← needCt prf "A"
    let By ← needCt prf "By"
    -- lhs = Enc_v(z₂; w) ⊕ (z₁ ⊙ Kv);  rhs = (e ⊙ Dv) ⊕ A
    let tmp := ctMul nv Kv z1
    let enc ← encWithNonce nv z2 w
    if ctAdd nv enc tmp != ctAdd nv (ctMul nv Dv e) A then return false
    let Xp ← needPt pub "Xp"
    if !curveEq z1 G e Xp Bx then return false
    encEq np z2 wy Fp e By
end Affg

/-! ## zkaffp: as zkaffg with Xp, Bx ciphertexts under the prover's key and a third nonce response Wx -/
namespace Affp
def sel : List Sel := Affg.sel

def challenge (pre : List Item) (pub prf : Rec) := challengeInt pre sel pub prf intervalScalar

def verify (pre : List Item) (pub prf : Rec) : Verdict := do
  let np := pub.pkV "Prover"
  let nv := pub.pkV "Verifier"
  let aux := pub.pedV "Aux"
  -- every field is needed below: a proof with a missing field is not valid
  if nilCommitment prf || prf.anyNil ["Z1", "Z2", "Z3", "Z4", "W", "Wx", "Wy", "A", "Bx", "By", "E", "S", "F", "T"] then return false
  if !validateCiphertext nv (prf.ctV "A") then return false
  if !(validateCiphertext np (prf.ctV "Bx") && validateCiphertext np (prf.ctV "By")) then return false
  if !(isValidNatModN np (prf.natV "Wx") && isValidNatModN np (prf.natV "Wy")) then return false
  if !isValidNatModN nv (prf.natV "W") then return false
  if !isInIntervalLEps (prf.intV "Z1") then return false
  if !isInIntervalLPrimeEps (prf.intV "Z2") then return false
  match ← challenge pre pub prf with
  | none => return false
  | some e =>
    let z1 ← needInt prf "Z1"
    let z2 ← needInt prf "Z2"
    let w ← needNat prf "W"
    let wx ← needNat prf "Wx"
    let wy ← needNat prf "Wy"
    let Kv ← needCt pub "Kv"
    let Dv ← needCt pub "Dv"
    let Fp ← needCt pub "Fp"
    let Xp ← needCt pub "Xp"
    let A ← needCt prf "A"
    let Bx ← needCt prf "Bx"
    let By ← needCt prf "By"
    let tmp := ctMul nv Kv z1
    let enc ← encWithNonce nv z2 w
    if ctAdd nv enc tmp != ctAdd nv (ctMul nv Dv e) A then return false
    if !(← encEq np z1 wx Xp e Bx) then return false
    if !(← encEq np z2 wy Fp e By) then return false
    if !aux.verify (prf.intV "Z1") (prf.intV "Z3") e (prf.natV "E") (prf.natV "S") then return false
    if !aux.verify (prf.intV "Z2") (prf.intV "Z4") e (prf.natV "F") (prf.natV "T") then return false
    return true
end Affp

/-! ## zkencelg: pub = {C, A, B, X, Prover, Aux}, proof = {S, D, Y, Z, T, Z1, W, Z2, Z3} -/
namespace Encelg
def sel : List Sel :=
  [("public", "Aux"), ("public", "Prover"), ("public", "C"), ("public", "A"), ("public", "B"), ("public", "X"),
   ("commitment", "S"), ("commitment", "D"), ("commitment", "Y"), ("commitment", "Z"), ("commitment", "T")]

def challenge (pre : List Item) (pub prf : Rec) := challengeInt pre sel pub prf intervalScalar

def verify (pre : List Item) (pub prf : Rec) : Verdict := do
  let n := pub.pkV "Prover"
  let aux := pub.pedV "Aux"
  -- every field is needed below: a proof with a missing field is not valid
  if nilCommitment prf || prf.anyNil ["Z1", "W", "Z2", "Z3", "S", "D", "Y", "Z", "T"] then return false
  if !validateCiphertext n (prf.ctV "D") then return false
  let w ← needSc prf "W"
  if w == 0 then return false
  let Y ← needPt prf "Y"
  if isIdentity Y then return false
  let Z ← needPt prf "Z"
  if isIdentity Z then return false
  if !isValidNatModN n (prf.natV "Z2") then return false
  if !isInIntervalLEps (prf.intV "Z1") then return false
  match ← challenge pre pub prf with
  | none => return false
  | some e =>
    let z1 ← needInt prf "Z1"
    let z2 ← needNat prf "Z2"
    let C ← needCt pub "C"
    let D ← needCt prf "D"
    if !(← encEq n z1 z2 C e D) then return false
    let A ← needPt pub "A"
    let B ← needPt pub "B"
    let X ← needPt pub "X"
    let es := intMod e Secp.n
    -- w⋅A + z₁⋅G = Y + e⋅X
    if padd (smul (intMod z1 Secp.n) G) (smul w A) != padd (smul es X) Y then return false
    -- w⋅G = Z + e⋅B
    if smul w G != padd (smul es B) Z then return false
    return aux.verify (prf.intV "Z1") (prf.intV "Z3") e (prf.natV "T") (prf.natV "S")
end Encelg

/-! ## zkdec: pub = {C, X (scalar), Prover, Aux}, proof = {S, T, A, Gamma, Z1, Z2, W}.
    Z1 is reduced into ±⌊N/2⌋ (`SetModSymmetric`) before `EncWithNonce`, which panics beyond that range. -/
namespace Dec
def sel : List Sel :=
  [("public", "Aux"), ("public", "Prover"), ("public", "C"), ("public", "X"),
   ("commitment", "S"), ("commitment", "T"), ("commitment", "A"), ("commitment", "Gamma")]

def challenge (pre : List Item) (pub prf : Rec) := challengeInt pre sel pub prf intervalScalar

def verify (pre : List Item) (pub prf : Rec) : Verdict := do
  let n := pub.pkV "Prover"
  let aux := pub.pedV "Aux"
  -- every field is needed below: a proof with a missing field is not valid
  if nilCommitment prf || prf.anyNil ["Z1", "Z2", "W", "S", "T", "A", "Gamma"] then return false
  -- p.Gamma == nil || p.Gamma.IsZero()
  match prf.scV "Gamma" with
  | none => return false
  | some g => if g == 0 then return false
  if !validateCiphertext n (prf.ctV "A") then return false
  if !isValidNatModN n (prf.natV "W") then return false
  match ← challenge pre pub prf with
  | none => return false
  | some e =>
    if !aux.verify (prf.intV "Z1") (prf.intV "Z2") e (prf.natV "T") (prf.natV "S") then return false
    let z1 ← needInt prf "Z1"
    let w ← needNat prf "W"
    let C ← needCt pub "C"
    let A ← needCt prf "A"
    -- z₁ is taken into the plaintext space before it is encrypted
    if !(← encEq n (symMod z1 n) w C e A) then return false
    let x ← needSc pub "X"
    let g ← needSc prf "Gamma"
    return intMod z1 Secp.n == (intMod e Secp.n * x + g) % Secp.n
end Dec

/-! ## zkmul: pub = {X, Y, C, Prover}, proof = {A, B, Z, U, V}.
    Z is reduced into ±⌊N/2⌋ (`SetModSymmetric`) before `EncWithNonce`, which panics beyond that range. -/
namespace Mul
def sel : List Sel :=
  [("public", "Prover"), ("public", "X"), ("public", "Y"), ("public", "C"), ("commitment", "A"), ("commitment", "B")]

def challenge (pre : List Item) (pub prf : Rec) := challengeInt pre sel pub prf intervalScalar

def verify (pre : List Item) (pub prf : Rec) : Verdict := do
  let n := pub.pkV "Prover"
  -- every field is needed below: a proof with a missing field is not valid
  if nilCommitment prf || prf.anyNil ["Z", "U", "V", "A", "B"] then return false
  if !(isValidNatModN n (prf.natV "U") && isValidNatModN n (prf.natV "V")) then return false
  if !(validateCiphertext n (prf.ctV "A") && validateCiphertext n (prf.ctV "B")) then return false
  match ← challenge pre pub prf with
  | none => return false
  | some e =>
    let u ← needNat prf "U"
    let v ← needNat prf "V"
    let X ← needCt pub "X"
    let Y ← needCt pub "Y"
    let C ← needCt pub "C"
    let A ← needCt prf "A"
    let B ← needCt prf "B"
    -- lhs = (z ⊙ Y)•uᴺ   (`Mul` with a nil exponent leaves the ciphertext unchanged)
    let zy := match prf.intV "Z" with | some z => ctMul n Y z | none => Y
    if ctRandomize n zy u != ctAdd n (ctMul n C e) A then return false
    let z ← needInt prf "Z"
    -- z is taken into the plaintext space before it is encrypted
    encEq n (symMod z n) v X e B
end Mul

/-! ## zkmulstar: pub = {C, D, X, Verifier, Aux}, proof = {A, Bx, E, S, Z1, Z2, W} -/
namespace Mulstar
def sel : List Sel :=
  [("public", "Aux"), ("public", "Verifier"), ("public", "C"), ("public", "D"), ("public", "X"),
   ("commitment", "A"), ("commitment", "Bx"), ("commitment", "E"), ("commitment", "S")]

def challenge (pre : List Item) (pub prf : Rec) := challengeInt pre sel pub prf intervalScalar

def verify (pre : List Item) (pub prf : Rec) : Verdict := do
  let n := pub.pkV "Verifier"
  let aux := pub.pedV "Aux"
  -- every field is needed below: a proof with a missing field is not valid
  if nilCommitment prf || prf.anyNil ["Z1", "Z2", "W", "A", "Bx", "E", "S"] then return false
  if !isValidNatModN n (prf.natV "W") then return false
  if !validateCiphertext n (prf.ctV "A") then return false
  let Bx ← needPt prf "Bx"
  if isIdentity Bx then return false
  if !isInIntervalLEps (prf.intV "Z1") then return false
  match ← challenge pre pub prf with
  | none => return false
  | some e =>
    if !aux.verify (prf.intV "Z1") (prf.intV "Z2") e (prf.natV "E") (prf.natV "S") then return false
    let z1 ← needInt prf "Z1"
    let w ← needNat prf "W"
    let C ← needCt pub "C"
    let D ← needCt pub "D"
    let A ← needCt prf "A"
    if ctRandomize n (ctMul n C z1) w != ctAdd n (ctMul n D e) A then return false
    let X ← needPt pub "X"
    return curveEq z1 G e X Bx
end Mulstar

/-! ## zknth: pub = {N, R}, proof = {A, Z}; challenge = `sample.IntervalL` -/
namespace Nth
def sel : List Sel := [("public", "N"), ("public", "R"), ("commitment", "A")]

def challenge (pre : List Item) (pub prf : Rec) := challengeInt pre sel pub prf intervalL

def verify (pre : List Item) (pub prf : Rec) : Verdict := do
  let n := pub.pkV "N"
  -- every field is needed below: a proof with a missing field is not valid
  if prf.anyNil ["Z", "A"] then return false
  if !isValidNatModN n (prf.natV "Z") then return false
  if !isValidNatModN (n * n) (prf.natV "A") then return false
  match ← challenge pre pub prf with
  | none => return false
  | some e =>
    let z ← needNat prf "Z"
    let A ← needNat prf "A"
    let R ← needNat pub "R"
    let nsq := n * n
    return powMod z n nsq == expI R e nsq * A % nsq
end Nth

/-! ## zkfac: pub = {N, Aux}, proof = {P, Q, A, B, T (Comm), Sigma, Z1, Z2, W1, W2, V}; no IsValid;
    challenge = `sample.IntervalL`; the range checks come last -/
namespace Fac
def sel : List Sel :=
  [("public", "N"), ("public", "Aux"), ("commitment", "P"), ("commitment", "Q"), ("commitment", "A"),
   ("commitment", "B"), ("commitment", "T")]

def challenge (pre : List Item) (pub prf : Rec) := challengeInt pre sel pub prf intervalL

def verify (pre : List Item) (pub prf : Rec) : Verdict := do
  -- every field is needed below: a proof with a missing field is not valid
  if prf.anyNil ["Sigma", "Z1", "Z2", "W1", "W2", "V", "P", "Q", "A", "B", "T"] then return false
  match ← challenge pre pub prf with
  | none => return false
  | some e =>
    let n0 := pub.pkV "N"
    let aux := pub.pedV "Aux"
    let nh := aux.n
    if !aux.verify (prf.intV "Z1") (prf.intV "W1") e (prf.natV "A") (prf.natV "P") then return false
    if !aux.verify (prf.intV "Z2") (prf.intV "W2") e (prf.natV "B") (prf.natV "Q") then return false
    let sigma ← needInt prf "Sigma"
    let R := powMod aux.s n0 nh * expI aux.t sigma nh % nh
    let Q ← needNat prf "Q"
    let z1 ← needInt prf "Z1"
    let v ← needInt prf "V"
    let lhs := expI Q z1 nh * expI aux.t v nh % nh
    let T ← needNat prf "T"
    let rhs := expI R e nh * T % nh
    if lhs != rhs then return false
    return isInIntervalLEpsPlus1RootN (prf.intV "Z1") && isInIntervalLEpsPlus1RootN (prf.intV "Z2")
end Fac

end Mps.ZK
