import Mps.Typed
import Mps.Blake3
import Mps.ZK.Arith
/-
  M3: Fiat–Shamir challenge derivation of `pkg/zk/*`: what `challenge()` writes on top of the
  caller's hash state (`hash.WriteAny`), and how the BLAKE3 output stream is read by
  `pkg/math/sample` (`sampleNeg`, `Scalar`, `ModN`, the bit vector of zkprm).

  Go types reaching `WriteAny` from the proof systems and the item they become:
    curve.Point / curve.Scalar      encoding.BinaryMarshaler, domain = reflect type name     (`TVal.point/scalar`)
    *paillier.Ciphertext/PublicKey, *pedersen.Parameters, *elgamal.Ciphertext   WriterToWithDomain   (`TVal.ct/pk/ped/elg`)
    *big.Int                        Gob encoding, domain "big.Int"                           (`TVal.bigint`)
    *saferith.Nat                   BinaryMarshaler: domain "*saferith.Nat", the bytes of the ANNOUNCED length
    *saferith.Modulus               BinaryMarshaler: domain "*saferith.Modulus", minimal big-endian bytes
  A nil `*saferith.Nat` makes `MarshalBinary` dereference nil: a PANIC inside `WriteAny`;
  a nil ciphertext / big.Int / nil interface makes `WriteAny` return an error (the verifier rejects).
-/
namespace Mps.ZK
open Mps

/-- one argument of `hash.WriteAny` in a `challenge()` -/
inductive HV where
  | tv      (v : TVal)               -- anything `Mps.Typed` already models (`.nilv` = refused with an error)
  | nat     (b : Option Bytes)       -- *saferith.Nat: `none` = nil pointer (panic), `some bytes` = announced-length bytes
  | modulus (n : Nat)                -- *saferith.Modulus
  deriving DecidableEq, Repr, Inhabited

inductive WriteRes where
  | item (i : Item)
  | err                               -- WriteAny returns an error
  | panic (why : String)
  deriving Repr, Inhabited

def natDomain : Bytes := str "*saferith.Nat"
def modulusDomain : Bytes := str "*saferith.Modulus"

def HV.write : HV → WriteRes
  | .tv v => match encode v with | some i => .item i | none => .err
  | .nat none => .panic "nil *saferith.Nat in hash.WriteAny (MarshalBinary on a nil pointer)"
  | .nat (some b) => .item ⟨natDomain, b⟩
  | .modulus n => .item ⟨modulusDomain, natBytes n⟩

/-- the (total) item encoder behind `HV.write`, used by the injectivity theorems -/
def HV.encode : HV → Option Item
  | .tv v => Mps.encode v
  | .nat none => none
  | .nat (some b) => some ⟨natDomain, b⟩
  | .modulus n => some ⟨modulusDomain, natBytes n⟩

/-- `hash.WriteAny(v₁,…,vₖ)` as used by the `challenge()` functions: `.ok (some items)` all written,
    `.ok none` an error was returned (the caller's `err != nil` branch), `.error` a panic. -/
def writeAll : List HV → Except String (Option (List Item))
  | [] => .ok (some [])
  | v :: vs =>
    match v.write with
    | .panic w => .error w
    | .err => .ok none
    | .item i =>
      match writeAll vs with
      | .error w => .error w
      | .ok none => .ok none
      | .ok (some is) => .ok (some (i :: is))

/-- zkprm writes the `A`s one call each and ignores the errors: refused values are skipped -/
def writeEachIgnoringErrors : List HV → Except String (List Item)
  | [] => .ok []
  | v :: vs =>
    match v.write with
    | .panic w => .error w
    | .err => writeEachIgnoringErrors vs
    | .item i => match writeEachIgnoringErrors vs with | .error w => .error w | .ok is => .ok (i :: is)

/-! ## the digest stream -/

/-- `hash.Digest()` of a state holding `items` (after `hash.New()`): the BLAKE3 XOF root -/
def digestRoot (items : List Item) : Blake3.Output :=
  Blake3.rootOutput Blake3.IV 0 (transcript items).toArray

/-- `sampleNeg(rand, bits)`: `bits/8 + 1` bytes; sign = low bit of the first byte; magnitude = the rest, big endian -/
def sampleNegAt (o : Blake3.Output) (pos bits : Nat) : Int × Nat :=
  let buf := o.read pos (bits / 8 + 1)
  let neg := (buf.headD 0).toNat % 2 = 1
  let mag := unbe (buf.drop 1)
  (if neg then -(mag : Int) else (mag : Int), pos + bits / 8 + 1)

/-- `sample.IntervalScalar(digest, group)` -/
def intervalScalar (o : Blake3.Output) : Int := (sampleNegAt o 0 ScalarBits).1
/-- `sample.IntervalL(digest)` -/
def intervalL (o : Blake3.Output) : Int := (sampleNegAt o 0 L).1

/-- `sample.Scalar(digest, group)`: 32 bytes, reduced mod the group order -/
def sampleScalar (o : Blake3.Output) : Nat := unbe (o.read 0 SafeScalarBytes) % Secp.n

/-- `sample.ModN(digest, n)` reading at `pos`: `(BitLen(n)+7)/8` bytes per attempt until the value is `< n`.
    `fuel` bounds the number of attempts of the model (the Go loop is unbounded). -/
def modNAt (o : Blake3.Output) (n : Nat) : Nat → Nat → Nat × Nat
  | 0, pos => (0, pos)
  | fuel + 1, pos =>
    let k := (bitLen n + 7) / 8
    let v := unbe (o.read pos k)
    if v < n then (v, pos + k) else modNAt o n fuel (pos + k)

/-- zkmod: `StatParam` successive `ModN` samples -/
def modNList (o : Blake3.Output) (n : Nat) : Nat → Nat → List Nat
  | 0, _ => []
  | cnt + 1, pos =>
    let (v, pos') := modNAt o n 1000 pos
    v :: modNList o n cnt pos'

/-- zkprm: `StatParam` bytes, challenge bit i = low bit of byte i -/
def bitVector (o : Blake3.Output) : List Bool :=
  (o.read 0 StatParam).map fun b => b.toNat % 2 = 1

end Mps.ZK
