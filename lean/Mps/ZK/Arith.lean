import Mps.Bytes
import Mps.Secp256k1
/-
  M3 (integer side), toolkit for the executable ZK verifiers. Core-only.

  Plain `Nat`/`Int` arithmetic (GMP-backed at run time): modular exponentiation with signed
  exponents (`saferith.Nat.ExpI`: x^|i|, then the modular inverse when i < 0), extended Euclid,
  `arith.IsValidNatModN` / `IsValidBigModN`, the `arith.IsInInterval*` range predicates with the
  constants of `internal/params`, Paillier `EncWithNonce` / `ValidateCiphertexts` / `Mul` / `Add` /
  `Randomize`, Pedersen `Verify` / `ValidateParameters`, Jacobi symbol, Miller–Rabin.

  A Go `panic` inside the verifier is modelled by `Except.error`.
-/
namespace Mps.ZK

/-! ## constants of `internal/params/params.go` (same formulas; `MpsProps.C10.gen_params` ties them) -/

def SecParam : Nat := 256
def StatParam : Nat := 80
def L : Nat := 1 * SecParam
def LPrime : Nat := 5 * SecParam
def Epsilon : Nat := 2 * SecParam
def LPlusEpsilon : Nat := L + Epsilon
def LPrimePlusEpsilon : Nat := LPrime + Epsilon
def BitsIntModN : Nat := 8 * SecParam
def BytesIntModN : Nat := BitsIntModN / 8
def BytesCiphertext : Nat := 2 * (2 * (4 * SecParam) / 8)
/-- `curve.Secp256k1.ScalarBits()` / `SafeScalarBytes()` -/
def ScalarBits : Nat := 256
def SafeScalarBytes : Nat := 32

/-! ## modular arithmetic -/

/-- `b ^ e mod m` -/
def powMod (b e m : Nat) : Nat := Mps.Secp.powMod b e m

/-- extended Euclid on `(r0, r1)` with Bézout coefficient of the first argument; `fuel` bounds the steps -/
def egcdAux : Nat → Int → Int → Int → Int → Int × Int
  | 0,        r0, _,  s0, _  => (r0, s0)
  | fuel + 1, r0, r1, s0, s1 =>
    if r1 = 0 then (r0, s0)
    else
      let q := r0 / r1
      egcdAux fuel r1 (r0 - q * r1) s1 (s0 - q * s1)

/-- `(gcd a m, s)` with `s * a ≡ gcd (mod m)` -/
def egcd (a m : Nat) : Nat × Int :=
  let (g, s) := egcdAux (2 * (Nat.log2 (max a m) + 2)) (a : Int) (m : Int) 1 0
  (g.toNat, s)

/-- inverse of `a` modulo `m`; `0` when `a` is not invertible (the Go result is then unspecified:
    every verifier checks `IsUnit` before it inverts a prover-supplied value) -/
def modInv (a m : Nat) : Nat :=
  let (g, s) := egcd (a % m) m
  if g = 1 then (s % (m : Int)).toNat else 0

/-- `saferith.Nat.ExpI` / `arith.Modulus.ExpI`: `x^i mod m` for a signed exponent -/
def expI (x : Nat) (i : Int) (m : Nat) : Nat :=
  let y := powMod x i.natAbs m
  if i < 0 then modInv y m else y

/-- bit length of `n` (`TrueLen`, `big.Int.BitLen`) -/
def bitLen (n : Nat) : Nat := if n = 0 then 0 else Nat.log2 n + 1

/-- `saferith.Int.Mod`: the representative in `[0, m)` -/
def intMod (z : Int) (m : Nat) : Nat := (z % (m : Int)).toNat

/-- `arith.IsValidNatModN` for one value (`none` = nil pointer): in `[1, N-1]` and coprime to `N` -/
def isValidNatModN (n : Nat) (x : Option Nat) : Bool :=
  match x with
  | none => false
  | some x => decide (x < n) && Nat.gcd x n == 1

/-- `arith.IsValidBigModN` for one value: sign = +1, `< N`, coprime to `N` -/
def isValidBigModN (n : Nat) (x : Option Int) : Bool :=
  match x with
  | none => false
  | some x => decide (0 < x) && decide (x < (n : Int)) && Nat.gcd x.natAbs n == 1

/-! ## range predicates of `pkg/math/arith/int.go`: `n.TrueLen() <= bound` -/

def inBits (bound : Nat) (z : Option Int) : Bool :=
  match z with
  | none => false
  | some z => decide (bitLen z.natAbs ≤ bound)

def isInIntervalLEps (z : Option Int) : Bool := inBits LPlusEpsilon z
def isInIntervalLPrimeEps (z : Option Int) : Bool := inBits LPrimePlusEpsilon z
def isInIntervalLEpsPlus1RootN (z : Option Int) : Bool := inBits (1 + LPlusEpsilon + BitsIntModN / 2) z

/-! ## Paillier (`pkg/paillier/public.go`, `ciphertext.go`) -/

/-- `PublicKey.EncWithNonce`: `(1+N)^m · nonce^N mod N²`; panics when `|m| > ⌊N/2⌋` -/
def encWithNonce (n : Nat) (m : Int) (nonce : Nat) : Except String Nat :=
  if m.natAbs > n / 2 then
    .error "paillier.Encrypt: tried to encrypt message outside of range [-(N-1)/2, …, (N-1)/2]"
  else
    let nsq := n * n
    .ok (expI (n + 1) m nsq * powMod nonce n nsq % nsq)

/-- `new(saferith.Int).SetModSymmetric(z.Mod(N), N)`: the representative of `z mod N` in `[-(N-1)/2, (N-1)/2]`
    (`r = z mod N`; when `N - r < r` the result is `-(N - r)`) -/
def symMod (z : Int) (n : Nat) : Int :=
  let r := intMod z n
  let neg := (n - r) % n
  if neg < r then -(neg : Int) else (r : Int)

/-- `PublicKey.ValidateCiphertexts` for one ciphertext: in `[1, N²-1]` and coprime to `N²` -/
def validateCiphertext (n : Nat) (c : Option Nat) : Bool :=
  match c with
  | none => false
  | some c => decide (c < n * n) && Nat.gcd c (n * n) == 1

/-- `ct.Mul(pk, k)`: `ct^k mod N²` -/
def ctMul (n : Nat) (c : Nat) (k : Int) : Nat := expI c k (n * n)
/-- `ct.Add(pk, ct2)`: product mod N² -/
def ctAdd (n : Nat) (c c2 : Nat) : Nat := c * c2 % (n * n)
/-- `ct.Randomize(pk, nonce)`: `ct · nonce^N mod N²` -/
def ctRandomize (n : Nat) (c nonce : Nat) : Nat := c * powMod nonce n (n * n) % (n * n)

/-! ## Pedersen (`pkg/pedersen/pedersen.go`) -/

structure Ped where
  n : Nat
  s : Nat
  t : Nat
  deriving Repr, Inhabited, DecidableEq

/-- `Parameters.Verify(a, b, e, S, T)`: `s^a t^b = S · T^e (mod N)`, after the nil and unit checks -/
def Ped.verify (p : Ped) (a b : Option Int) (e : Int) (S T : Option Nat) : Bool :=
  match a, b, S, T with
  | some a, some b, some S, some T =>
    if !(isValidNatModN p.n (some S) && isValidNatModN p.n (some T)) then false
    else
      let lhs := expI p.s a p.n * expI p.t b p.n % p.n
      let rhs := expI T e p.n * S % p.n
      lhs == rhs
  | _, _, _, _ => false

/-- `pedersen.ValidateParameters` (`nil` on success) -/
def Ped.validate (p : Ped) : Bool :=
  isValidNatModN p.n (some p.s) && isValidNatModN p.n (some p.t) && p.s != p.t

/-- `Parameters.Commit(x, y)` -/
def Ped.commit (p : Ped) (x y : Int) : Nat := expI p.s x p.n * expI p.t y p.n % p.n

/-! ## Jacobi symbol, primality (zkmod) -/

/-- Jacobi symbol `(a / n)` for odd `n > 0` (binary algorithm); result in `{-1, 0, 1}` -/
def jacobiAux : Nat → Nat → Nat → Int → Int
  | 0, _, _, _ => 0
  | fuel + 1, a, n, acc =>
    if a = 0 then (if n = 1 then acc else 0)
    else if a % 2 = 0 then
      let acc := if n % 8 = 3 ∨ n % 8 = 5 then -acc else acc
      jacobiAux fuel (a / 2) n acc
    else
      let acc := if a % 4 = 3 ∧ n % 4 = 3 then -acc else acc
      jacobiAux fuel (n % a) a acc

def jacobi (a : Int) (n : Nat) : Int :=
  let a' := (a % (n : Int)).toNat
  jacobiAux (4 * (Nat.log2 n + 2)) a' n 1

/-- strong-probable-prime test to base `a` of odd `n > 2`, `n - 1 = d · 2^s` -/
def millerRabinBase (n d s a : Nat) : Bool :=
  let x := powMod a d n
  if x = 1 ∨ x = n - 1 then true
  else
    let rec go : Nat → Nat → Bool
      | 0, _ => false
      | k + 1, x =>
        let x := x * x % n
        if x = n - 1 then true else if x = 1 then false else go k x
    go (s - 1) x

def oddPart : Nat → Nat → Nat → Nat × Nat
  | 0, d, s => (d, s)
  | fuel + 1, d, s => if d % 2 = 0 ∧ d ≠ 0 then oddPart fuel (d / 2) (s + 1) else (d, s)

/-- stands for `big.Int.ProbablyPrime(20)`: Miller–Rabin to the first 20 prime bases (after trial
    division by them). Both are exact on every input of the correspondence suite. -/
def probablyPrime (n : Nat) : Bool :=
  let bases := [2, 3, 5, 7, 11, 13, 17, 19, 23, 29, 31, 37, 41, 43, 47, 53, 59, 61, 67, 71]
  if n < 2 then false
  else if bases.contains n then true
  else if bases.any (fun b => n % b = 0) then false
  else
    let (d, s) := oddPart (Nat.log2 n + 1) (n - 1) 0
    bases.all (millerRabinBase n d s)

/-! ## self test -/

def selfTest : Bool :=
  powMod 3 200 1000003 == 3 ^ 200 % 1000003
  && modInv 3 7 == 5 && modInv 10 17 * 10 % 17 == 1 && modInv 6 9 == 0
  && expI 3 (-1) 7 == 5 && expI 3 2 7 == 2 && expI 5 0 7 == 1 && expI 3 (-2) 7 == 4
  && bitLen 0 == 0 && bitLen 1 == 1 && bitLen 255 == 8 && bitLen 256 == 9
  && isInIntervalLEps (some (2 ^ 768 - 1)) && !isInIntervalLEps (some (2 ^ 768))
  && isInIntervalLEps (some (-(2 ^ 768 - 1))) && !isInIntervalLEps (some (-(2 ^ 768))) && !isInIntervalLEps none
  && LPlusEpsilon == 768 && LPrimePlusEpsilon == 1792 && BitsIntModN == 2048 && BytesCiphertext == 512
  && jacobi 2 7 == 1 && jacobi 3 7 == -1 && jacobi 0 7 == 0 && jacobi 5 21 == 1 && jacobi 2 15 == 1
  && jacobi 7 15 == -1 && jacobi (-1) 7 == -1 && jacobi 1001 9907 == -1 && jacobi 19 45 == 1 && jacobi 8 21 == -1
  && probablyPrime 2 && probablyPrime 97 && !probablyPrime 91 && probablyPrime (2 ^ 127 - 1) && !probablyPrime (2 ^ 127 + 1)
  && !probablyPrime 561 && !probablyPrime (1000003 * 1000033) && probablyPrime 1000003
  && intMod (-1) 7 == 6 && intMod 15 7 == 1 && intMod 0 7 == 0
  && (match encWithNonce 15 3 2 with | .ok c => c == expI 16 3 225 * powMod 2 15 225 % 225 | .error _ => false)
  && (match encWithNonce 15 8 2 with | .error _ => true | .ok _ => false)
  && (match encWithNonce 15 (-7) 2 with | .error _ => false | .ok _ => true)

end Mps.ZK
