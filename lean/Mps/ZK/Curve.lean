import Mps.ZK.Rec
/-
  M3: executable verifiers of the curve-only proof systems: zksch, zklog, zkelog
  (`pkg/zk/sch/sch.go`, `pkg/zk/log/log.go`, `pkg/zk/elog/elog.go`), transcribed check by check.
  Field names are the Go field names. The challenge is `sample.Scalar(hash.Digest(), group)`.
-/
namespace Mps.ZK
open Mps

def isIdentity (P : Secp.Pt) : Bool := P == .inf

/-! ## zksch: `Proof.Verify(hash, public, gen)`; record: pub = {X, gen}, proof = {C, Z} -/
namespace Sch

def sel : List Sel := [("commitment", "C"), ("", "public"), ("", "gen")]

/-- `gen == nil` is replaced by the base point before anything is hashed -/
def genVal (pub : Rec) : Val :=
  match pub.get "gen" with
  | .pt (some b) => .pt (some b)
  | _ => .pt (some GEnc)

def param (pub : Rec) (p : String) : List Val :=
  if p == "public" then [pub.get "X"] else if p == "gen" then [genVal pub] else []

def challenge (pre : List Item) (pub prf : Rec) : Except String (Option Nat) := do
  let o ← challengeStream pre (selectVals sel pub prf (param pub))
  return o.map sampleScalar

def verify (pre : List Item) (pub prf : Rec) : Verdict := do
  -- Proof.IsValid: p == nil || !p.Z.IsValid() || !p.C.IsValid()
  let z ← needSc prf "Z"
  if z == 0 then return false
  let C ← needPt prf "C"
  if isIdentity C then return false
  -- Response.Verify
  let gen := match (genVal pub) with | .pt (some b) => decodePt b | _ => G
  let X ← needPt pub "X"
  if isIdentity X then return false
  match ← challenge pre pub prf with
  | none => return false
  | some e =>
    let lhs := smul z gen
    let rhs := padd (smul e X) C
    return lhs == rhs

end Sch

/-! ## zklog: pub = {H, X, Y}, proof = {A, B, C, Z1, Z2} -/
namespace Log

def sel : List Sel :=
  [("public", "H"), ("public", "X"), ("public", "Y"), ("commitment", "A"), ("commitment", "B"), ("commitment", "C")]

def challenge (pre : List Item) (pub prf : Rec) : Except String (Option Nat) := do
  let o ← challengeStream pre (selectVals sel pub prf (fun _ => []))
  return o.map sampleScalar

def verify (pre : List Item) (pub prf : Rec) : Verdict := do
  -- every field is needed below: a proof with a missing field is not valid
  if nilCommitment prf || prf.anyNil ["Z1", "Z2", "A", "B", "C"] then return false
  let A ← needPt prf "A"
  let B ← needPt prf "B"
  let C ← needPt prf "C"
  if isIdentity A || isIdentity B || isIdentity C then return false
  let z1 ← needSc prf "Z1"
  let z2 ← needSc prf "Z2"
  if z1 == 0 || z2 == 0 then return false
  match ← challenge pre pub prf with
  | none => return false
  | some e =>
    let H ← needPt pub "H"
    let X ← needPt pub "X"
    let Y ← needPt pub "Y"
    if smul z1 G != padd (smul e X) A then return false
    if smul z1 H != padd (smul e Y) B then return false
    if smul z2 G != padd (smul e H) C then return false
    return true

end Log

/-! ## zkelog: pub = {E (ElGamal ciphertext L, M), ElGamalPublic, Base, Y}, proof = {A, N, B, Z, U} -/
namespace Elog

def sel : List Sel :=
  [("public", "E"), ("public", "ElGamalPublic"), ("public", "Y"), ("public", "Base"),
   ("commitment", "A"), ("commitment", "N"), ("commitment", "B")]

def challenge (pre : List Item) (pub prf : Rec) : Except String (Option Nat) := do
  let o ← challengeStream pre (selectVals sel pub prf (fun _ => []))
  return o.map sampleScalar

def verify (pre : List Item) (pub prf : Rec) : Verdict := do
  -- every field is needed below: a proof with a missing field is not valid
  if nilCommitment prf || prf.anyNil ["Z", "U", "A", "N", "B"] then return false
  let A ← needPt prf "A"
  let N ← needPt prf "N"
  let B ← needPt prf "B"
  if isIdentity A || isIdentity N || isIdentity B then return false
  let z ← needSc prf "Z"
  let u ← needSc prf "U"
  if z == 0 || u == 0 then return false
  match ← challenge pre pub prf with
  | none => return false
  | some e =>
    let (Lp, Mp) := match pub.get "E" with
      | .elg l m => (decodePt l, decodePt m)
      | _ => (.inf, .inf)
    let X ← needPt pub "ElGamalPublic"
    let Hb ← needPt pub "Base"
    let Y ← needPt pub "Y"
    if smul z G != padd (smul e Lp) A then return false
    if padd (smul u G) (smul z X) != padd (smul e Mp) N then return false
    if smul u Hb != padd (smul e Y) B then return false
    return true

end Elog

end Mps.ZK
