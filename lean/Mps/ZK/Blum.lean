import Mps.ZK.Rec
/-
  M3: executable verifiers of zkmod and zkprm (`pkg/zk/mod/mod.go`, `pkg/zk/prm/prm.go`):
  StatParam = 80 parallel repetitions, challenges read from one BLAKE3 stream
  (zkmod: 80 × `sample.ModN`; zkprm: 80 bytes, one bit each).
-/
namespace Mps.ZK
open Mps

/-! ## zkmod: pub = {N}, proof = {W, Responses = list of {A, B, X, Z}}.
    `Verify` does NOT call `IsValid`: X and Z are not checked to lie in [1, N-1], and a nil W / X / Z
    reaches `big.Jacobi` / `big.Int.Exp` / `big.Int.Mul` (nil dereference). -/
namespace Mod

def sel : List Sel := [("", "n"), ("", "w")]

def param (pub prf : Rec) (p : String) : List Val :=
  if p == "n" then [pub.get "N"] else if p == "w" then [prf.get "W"] else []

/-- the 80 challenges yᵢ; `none` = challenge returned an error -/
def challenge (pre : List Item) (pub prf : Rec) : Except String (Option (List Nat)) := do
  let o ← challengeStream pre (selectVals sel pub prf (param pub prf))
  return o.map fun o => modNList o (pub.pkV "N") StatParam 0

structure Resp where
  a : Bool
  b : Bool
  x : Option Int
  z : Option Int

def respOf : Val → Resp
  | .list [.bool a, .bool b, .big x, .big z] => ⟨a, b, x, z⟩
  | _ => ⟨false, false, none, none⟩

/-- `Response.Verify(n, w, y)` -/
def respVerify (n : Nat) (w : Int) (y : Nat) (r : Resp) : Verdict := do
  let z ← match r.z with | some z => pure z | none => throw "nil Z in zkmod response (big.Int.Exp)"
  -- lhs = zⁿ mod n  (big.Int.Exp: Euclidean residue)
  if powMod (intMod z n) n n != y then return false
  let x ← match r.x with | some x => pure x | none => throw "nil X in zkmod response (big.Int.Mul)"
  let lhs := intMod (x * x * (x * x)) n
  let rhs : Int := y
  let rhs := if r.a then -rhs else rhs
  let rhs := if r.b then rhs * w else rhs
  return lhs == intMod rhs n

def verify (pre : List Item) (pub prf : Rec) : Verdict := do
  let n := pub.pkV "N"
  let rs := (prf.listV "Responses").map respOf
  -- IsValid (called first by Verify): W present, N odd and (W/N) = -1, W and every response in [1, N-1] and coprime to N
  match prf.intV "W" with
  | none => return false
  | some w =>
    if n % 2 == 0 || jacobi w n != -1 then return false
    if !isValidBigModN n (some w) then return false
    if !(rs.all fun r => isValidBigModN n r.x && isValidBigModN n r.z) then return false
    -- Verify
    if n % 2 == 0 || probablyPrime n then return false
    if jacobi w n != -1 then return false
    if !isValidBigModN n (some w) then return false
    match ← challenge pre pub prf with
    | none => return false
    | some ys =>
      -- every response is verified (pool.Parallelize evaluates all of them): a panic anywhere is a panic
      let mut ok := true
      for (r, y) in rs.zip ys do
        if !(← respVerify n w y r) then ok := false
      return ok

end Mod

/-! ## zkprm: pub = {Aux}, proof = {As, Zs} -/
namespace Prm

def sel : List Sel := [("public", "Aux"), ("each", "A")]

/-- `hash.WriteAny(public.Aux)` (error returned), then one ignored-error `WriteAny` per Aᵢ; 80 bits -/
def challenge (pre : List Item) (pub prf : Rec) : Except String (Option (List Bool)) := do
  match (pub.get "Aux").toHV.write with
  | .panic w => throw w
  | .err =>
    -- the error is only looked at after the whole challenge has been computed
    let _ ← writeEachIgnoringErrors ((prf.listV "As").map Val.toHV)
    return none
  | .item i =>
    let is ← writeEachIgnoringErrors ((prf.listV "As").map Val.toHV)
    return some (bitVector (digestRoot (pre ++ i :: is)))

def intOf : Val → Option Int
  | .big z => z
  | _ => none

def verify (pre : List Item) (pub prf : Rec) : Verdict := do
  let aux := pub.pedV "Aux"
  if !aux.validate then return false
  let as := (prf.listV "As").map intOf
  let zs := (prf.listV "Zs").map intOf
  -- IsValid: every Aᵢ and Zᵢ present, in [1, N-1] and coprime to N
  if !((as ++ zs).all (isValidBigModN aux.n)) then return false
  match ← challenge pre pub prf with
  | none => return false
  | some es =>
    let one (a z : Option Int) (e : Bool) : Bool :=
      if !(isValidBigModN aux.n a && isValidBigModN aux.n z) then false
      else
        match a, z with
        | some a, some z =>
          if a == 1 then false
          else
            let lhs := powMod aux.t z.natAbs aux.n
            let rhs := if e then (a.natAbs * aux.s) % aux.n else a.natAbs
            lhs == rhs
        | _, _ => false
    return (as.zip (zs.zip es)).all fun (a, z, e) => one a z e

end Prm

end Mps.ZK
