-- written by bin/mkpins (see there). Candidate crash sites of the guard-before-use tables (MpsGen.Guards), pinned.
namespace Mps.Guards.Pinned
namespace head
def cmpUnmarshalBinary : List String := [
  "c.Group == nil => errors.New(\"config must be initialized using EmptyConfig\")",
  "err := cbor.Unmarshal(data, &cm); err != nil => fmt.Errorf(\"config: %w\", err)",
  "cm.ECDSA.IsZero() || cm.ElGamal.IsZero() => errors.New(\"config: ECDSA or ElGamal secret key is zero\")",
  "err := paillier.ValidatePrime(cm.P); err != nil => fmt.Errorf(\"config: prime P: %w\", err)",
  "err := paillier.ValidatePrime(cm.Q); err != nil => fmt.Errorf(\"config: prime Q: %w\", err)",
  "err := cbor.Unmarshal(pm, p); err != nil => fmt.Errorf(\"config: party %s: %w\", p.ID, err)",
  "_, ok := ps[p.ID]; ok => fmt.Errorf(\"config: party %s: duplicate entry\", p.ID)",
  "err := paillier.ValidateN(p.N); err != nil => fmt.Errorf(\"config: party %s: %w\", p.ID, err)",
  "err := pedersen.ValidateParameters(p.N, p.S, p.T); err != nil => fmt.Errorf(\"config: party %s: %w\", p.ID, err)",
  "p.ECDSA.IsIdentity() || p.ElGamal.IsIdentity() => fmt.Errorf(\"config: party %s: ECDSA or ElGamal public key is identity\", p.ID)",
  "!ValidThreshold(cm.Threshold, len(ps)) => fmt.Errorf(\"config: threshold %d is invalid\", cm.Threshold)",
  "_, ok := ps[cm.ID]; !ok => errors.New(\"config: no public data for this party\")"
]
def cmpUnmarshalDecode : List String := [
  "cbor.Unmarshal(data, &cm)",
  "cbor.Unmarshal(pm, p)"
]
def decodeCalls : List String := [
  "cbor.Unmarshal(msg.Data, content)",
  "cbor.Unmarshal(msg.Data, content)"
]
def doernerReceiverUnmarshalCBOR : List String := [
  "<<MISSING: protocols/doerner/keygen/keygen.go:ConfigReceiver.UnmarshalCBOR>>"
]
def doernerReceiverValidate : List String := [
  "<<MISSING: protocols/doerner/keygen/keygen.go:ConfigReceiver.Validate>>"
]
def doernerSenderUnmarshalCBOR : List String := [
  "<<MISSING: protocols/doerner/keygen/keygen.go:ConfigSender.UnmarshalCBOR>>"
]
def doernerSenderValidate : List String := [
  "<<MISSING: protocols/doerner/keygen/keygen.go:ConfigSender.Validate>>"
]
def exponentUnmarshal : List String := [
  "e == nil || e.group == nil => errors.New(\"can't unmarshal Exponent with no group\")",
  "len(data) < 4 => errors.New(\"exponent: data too short\")",
  "uint64(size) > uint64(len(data)-4)/32 => errors.New(\"exponent: number of coefficients exceeds the size of the data\")",
  "err := cbor.Unmarshal(data[4:], &rawExponent); err != nil => err"
]
def frostConfigValidate : List String := [
  "<<MISSING: protocols/frost/keygen/config.go:Config.Validate>>"
]
def frostUnmarshalCBOR : List String := [
  "<<MISSING: protocols/frost/keygen/config.go:Config.UnmarshalCBOR>>"
]
def frostValidateShares : List String := [
  "<<MISSING: protocols/frost/keygen/config.go:validateShares>>"
]
def messageUnmarshalBinary : List String := [
  "err := cbor.Unmarshal(data, deserialized); err != nil => nil"
]
def otSendSetupFields : List String := [
  "_Delta [params.OTBytes]byte",
  "_K_Delta [params.OTParam][params.OTBytes]byte",
  "<<MISSING: internal/ot/correlated.go:CorreOTSendSetup.MarshalBinary>>"
]
def pedersenValidateParameters : List String := [
  "n == nil || s == nil || t == nil => ErrNilFields",
  "!arith.IsValidNatModN(n, s, t) => ErrNotValidModN",
  "_, eq, _ := s.Cmp(t); eq == 1 => ErrSEqualT"
]
def presigUnmarshalCBOR : List String := [
  "<<MISSING: pkg/ecdsa/presignature.go:PreSignature.UnmarshalCBOR>>"
]
def ridValidate : List String := [
  "l := len(rid); l != params.SecBytes => fmt.Errorf(\"rid: incorrect length (got %d, expected %d)\", l, params.SecBytes)",
  "b != 0 => nil"
]
def roundUseFirst : List String := [
  "protocols/cmp/presign/abort1.go:abort1.StoreBroadcastMessage|broadcastAbort1.GammaShare|*saferith.Int|USE-FIRST|r.GammaShares[from] = body.GammaShare",
  "protocols/cmp/presign/abort1.go:abort1.StoreBroadcastMessage|broadcastAbort1.KProof|*abortNth|USE-FIRST|r.KShares[from] = body.KProof.Plaintext",
  "protocols/cmp/presign/abort2.go:abort2.StoreBroadcastMessage|broadcastAbort2.KProof|*abortNth|USE-FIRST|r.KShares[from] = r.Group().NewScalar().SetNat(body.KProof.Plaintext.Mod(r.Group().Order()))",
  "protocols/cmp/presign/abort2.go:abort2.StoreBroadcastMessage|broadcastAbort2.YHat|curve.Point|USE-FIRST|r.YHat[from] = body.YHat",
  "protocols/cmp/presign/presign3.go:presign3.VerifyMessage+StoreMessage|message3.ChiF|*paillier.Ciphertext|USE-FIRST|!body.ChiProof.Verify(r.HashForID(from), zkaffg.Public{ Kv: r.K[to], Dv: r.ChiCiphertext[from][to], Fp: body.ChiF, Xp: r.ECDSA[from], Prover: r.Paillier[from], Verifier: r.Paillier[to], Aux: r.Pedersen[to], })",
  "protocols/cmp/presign/presign3.go:presign3.VerifyMessage+StoreMessage|message3.DeltaF|*paillier.Ciphertext|USE-FIRST|!body.DeltaProof.Verify(r.Group(), r.HashForID(from), zkaffp.Public{ Kv: r.K[to], Dv: r.DeltaCiphertext[from][to], Fp: body.DeltaF, Xp: r.G[from], Prover: r.Paillier[from], Verifier: r.Paillier[to], Aux: r.Pedersen[to], })",
  "protocols/cmp/sign/round3.go:round3.VerifyMessage+StoreMessage|message3.ChiD|*paillier.Ciphertext|USE-FIRST|!body.ChiProof.Verify(r.HashForID(from), zkaffg.Public{ Kv: r.K[to], Dv: body.ChiD, Fp: body.ChiF, Xp: r.ECDSA[from], Prover: r.Paillier[from], Verifier: r.Paillier[to], Aux: r.Pedersen[to], })",
  "protocols/cmp/sign/round3.go:round3.VerifyMessage+StoreMessage|message3.ChiF|*paillier.Ciphertext|USE-FIRST|!body.ChiProof.Verify(r.HashForID(from), zkaffg.Public{ Kv: r.K[to], Dv: body.ChiD, Fp: body.ChiF, Xp: r.ECDSA[from], Prover: r.Paillier[from], Verifier: r.Paillier[to], Aux: r.Pedersen[to], })",
  "protocols/cmp/sign/round3.go:round3.VerifyMessage+StoreMessage|message3.DeltaD|*paillier.Ciphertext|USE-FIRST|!body.DeltaProof.Verify(r.HashForID(from), zkaffg.Public{ Kv: r.K[to], Dv: body.DeltaD, Fp: body.DeltaF, Xp: r.BigGammaShare[from], Prover: r.Paillier[from], Verifier: r.Paillier[to], Aux: r.Pedersen[to], })",
  "protocols/cmp/sign/round3.go:round3.VerifyMessage+StoreMessage|message3.DeltaF|*paillier.Ciphertext|USE-FIRST|!body.DeltaProof.Verify(r.HashForID(from), zkaffg.Public{ Kv: r.K[to], Dv: body.DeltaD, Fp: body.DeltaF, Xp: r.BigGammaShare[from], Prover: r.Paillier[from], Verifier: r.Paillier[to], Aux: r.Pedersen[to], })"
]
def signatureUnmarshalCBOR : List String := [
  "<<MISSING: pkg/ecdsa/signature.go:Signature.UnmarshalCBOR>>"
]
def taprootConfigValidate : List String := [
  "<<MISSING: protocols/frost/keygen/config.go:TaprootConfig.Validate>>"
]
def taprootUnmarshalCBOR : List String := [
  "<<MISSING: protocols/frost/keygen/config.go:TaprootConfig.UnmarshalCBOR>>"
]
def validateN : List String := [
  "n == nil => ErrPaillierNil",
  "bits := nBig.BitLen(); bits != params.BitsPaillier => fmt.Errorf(\"have: %d, need %d: %w\", bits, params.BitsPaillier, ErrPaillierLength)",
  "nBig.Bit(0) != 1 => ErrPaillierEven"
]
def validatePrime : List String := [
  "p == nil => ErrPrimeNil",
  "bits := p.TrueLen(); bits != bitsWant => fmt.Errorf(\"invalid prime size: have: %d, need %d: %w\", bits, bitsWant, ErrPrimeBadLength)",
  "p.Byte(0)&0b11 != 3 => ErrNotBlum",
  "!pMinus1Div2.Big().ProbablyPrime(1) => ErrNotSafePrime"
]
def zkUnguarded : List String := [
  "zk/affg|Commitment|*Commitment|UNGUARDED",
  "zk/affg|E|*saferith.Nat|UNGUARDED",
  "zk/affg|F|*saferith.Nat|UNGUARDED",
  "zk/affg|S|*saferith.Nat|UNGUARDED",
  "zk/affg|T|*saferith.Nat|UNGUARDED",
  "zk/affg|Z1|*saferith.Int|UNGUARDED",
  "zk/affg|Z2|*saferith.Int|UNGUARDED",
  "zk/affg|Z3|*saferith.Int|UNGUARDED",
  "zk/affg|Z4|*saferith.Int|UNGUARDED",
  "zk/affp|Commitment|*Commitment|UNGUARDED",
  "zk/affp|E|*saferith.Nat|UNGUARDED",
  "zk/affp|F|*saferith.Nat|UNGUARDED",
  "zk/affp|S|*saferith.Nat|UNGUARDED",
  "zk/affp|T|*saferith.Nat|UNGUARDED",
  "zk/affp|Z1|*saferith.Int|UNGUARDED",
  "zk/affp|Z2|*saferith.Int|UNGUARDED",
  "zk/affp|Z3|*saferith.Int|UNGUARDED",
  "zk/affp|Z4|*saferith.Int|UNGUARDED",
  "zk/dec|Commitment|*Commitment|UNGUARDED",
  "zk/dec|S|*saferith.Nat|UNGUARDED",
  "zk/dec|T|*saferith.Nat|UNGUARDED",
  "zk/dec|Z1|*saferith.Int|UNGUARDED",
  "zk/dec|Z2|*saferith.Int|UNGUARDED",
  "zk/elog|Commitment|*Commitment|UNGUARDED",
  "zk/encelg|Commitment|*Commitment|UNGUARDED",
  "zk/encelg|S|*saferith.Nat|UNGUARDED",
  "zk/encelg|T|*saferith.Nat|UNGUARDED",
  "zk/encelg|Z1|*saferith.Int|UNGUARDED",
  "zk/encelg|Z3|*saferith.Int|UNGUARDED",
  "zk/enc|Commitment|*Commitment|UNGUARDED",
  "zk/enc|C|*saferith.Nat|UNGUARDED",
  "zk/enc|S|*saferith.Nat|UNGUARDED",
  "zk/enc|Z1|*saferith.Int|UNGUARDED",
  "zk/enc|Z3|*saferith.Int|UNGUARDED",
  "zk/fac|Sigma|*saferith.Int|UNGUARDED",
  "zk/fac|V|*saferith.Int|UNGUARDED",
  "zk/fac|W1|*saferith.Int|UNGUARDED",
  "zk/fac|W2|*saferith.Int|UNGUARDED",
  "zk/fac|Z1|*saferith.Int|UNGUARDED",
  "zk/fac|Z2|*saferith.Int|UNGUARDED",
  "zk/logstar|Commitment|*Commitment|UNGUARDED",
  "zk/logstar|D|*saferith.Nat|UNGUARDED",
  "zk/logstar|S|*saferith.Nat|UNGUARDED",
  "zk/logstar|Z1|*saferith.Int|UNGUARDED",
  "zk/logstar|Z3|*saferith.Int|UNGUARDED",
  "zk/log|Commitment|*Commitment|UNGUARDED",
  "zk/mulstar|Commitment|*Commitment|UNGUARDED",
  "zk/mulstar|E|*saferith.Nat|UNGUARDED",
  "zk/mulstar|S|*saferith.Nat|UNGUARDED",
  "zk/mulstar|Z1|*saferith.Int|UNGUARDED",
  "zk/mulstar|Z2|*saferith.Int|UNGUARDED",
  "zk/mul|Commitment|*Commitment|UNGUARDED",
  "zk/mul|Z|*saferith.Int|UNGUARDED"
]
end head
namespace fixed
def cmpUnmarshalBinary : List String := [
  "c.Group == nil => errors.New(\"config must be initialized using EmptyConfig\")",
  "err := safecbor.Unmarshal(data, cm); err != nil => fmt.Errorf(\"config: %w\", err)",
  "cm.ID == \"\" => errors.New(\"config: ID is empty\")",
  "cm.ECDSA == nil || cm.ElGamal == nil => errors.New(\"config: ECDSA or ElGamal secret key is missing\")",
  "err := cm.RID.Validate(); err != nil => fmt.Errorf(\"config: %w\", err)",
  "err := cm.ChainKey.Validate(); err != nil => fmt.Errorf(\"config: chain key: %w\", err)",
  "cm.ECDSA.IsZero() || cm.ElGamal.IsZero() => errors.New(\"config: ECDSA or ElGamal secret key is zero\")",
  "err := paillier.ValidatePrime(cm.P); err != nil => fmt.Errorf(\"config: prime P: %w\", err)",
  "err := paillier.ValidatePrime(cm.Q); err != nil => fmt.Errorf(\"config: prime Q: %w\", err)",
  "err := safecbor.Unmarshal(pm, p); err != nil => fmt.Errorf(\"config: party %s: %w\", p.ID, err)",
  "p.ID == \"\" => errors.New(\"config: party with empty ID\")",
  "_, ok := ps[p.ID]; ok => fmt.Errorf(\"config: party %s: duplicate entry\", p.ID)",
  "err := pedersen.ValidateParameters(paillierSecret.Modulus().Modulus, p.S, p.T); err != nil => fmt.Errorf(\"config: party %s: %w\", p.ID, err)",
  "err := paillier.ValidateN(p.N); err != nil => fmt.Errorf(\"config: party %s: %w\", p.ID, err)",
  "err := pedersen.ValidateParameters(p.N, p.S, p.T); err != nil => fmt.Errorf(\"config: party %s: %w\", p.ID, err)",
  "p.ECDSA.IsIdentity() || p.ElGamal.IsIdentity() => fmt.Errorf(\"config: party %s: ECDSA or ElGamal public key is identity\", p.ID)",
  "!ValidThreshold(cm.Threshold, len(ps)) => fmt.Errorf(\"config: threshold %d is invalid\", cm.Threshold)",
  "_, ok := ps[cm.ID]; !ok => errors.New(\"config: no public data for this party\")"
]
def cmpUnmarshalDecode : List String := [
  "safecbor.Unmarshal(data, cm)",
  "safecbor.Unmarshal(pm, p)"
]
def decodeCalls : List String := [
  "safecbor.Unmarshal(msg.Data, content)",
  "safecbor.Unmarshal(msg.Data, content)"
]
def doernerReceiverUnmarshalCBOR : List String := [
  "err := safecbor.Unmarshal(data, (*plain)(c)); err != nil => err"
]
def doernerReceiverValidate : List String := [
  "c == nil => errors.New(\"config: config is nil\")",
  "c.Setup == nil => errors.New(\"config: OT setup is missing\")",
  "c.SecretShare == nil || c.SecretShare.IsZero() || c.Public == nil || c.Public.IsIdentity() => errors.New(\"config: secret share or public key is missing\")",
  "l := len(c.ChainKey); l != 0 && l != params.SecBytes => fmt.Errorf(\"config: chain key has %d bytes, expected %d\", l, params.SecBytes)"
]
def doernerSenderUnmarshalCBOR : List String := [
  "err := safecbor.Unmarshal(data, (*plain)(c)); err != nil => err"
]
def doernerSenderValidate : List String := [
  "c == nil => errors.New(\"config: config is nil\")",
  "c.Setup == nil => errors.New(\"config: OT setup is missing\")",
  "c.SecretShare == nil || c.SecretShare.IsZero() || c.Public == nil || c.Public.IsIdentity() => errors.New(\"config: secret share or public key is missing\")",
  "l := len(c.ChainKey); l != 0 && l != params.SecBytes => fmt.Errorf(\"config: chain key has %d bytes, expected %d\", l, params.SecBytes)"
]
def exponentUnmarshal : List String := [
  "e == nil || e.group == nil => errors.New(\"can't unmarshal Exponent with no group\")",
  "len(data) < 4 => errors.New(\"exponent: data too short\")",
  "uint64(size) > uint64(len(data)-4)/32 => errors.New(\"exponent: number of coefficients exceeds the size of the data\")",
  "err := safecbor.Unmarshal(data[4:], &rawExponent); err != nil => err",
  "len(rawExponent.Coefficients) != int(size) => errors.New(\"exponent: wrong number of coefficients\")",
  "c == nil => errors.New(\"exponent: missing coefficient\")",
  "!rawExponent.IsConstant && size == 0 => errors.New(\"exponent: no coefficients\")"
]
def frostConfigValidate : List String := [
  "r == nil => errors.New(\"config: config is nil\")",
  "r.ID == \"\" => errors.New(\"config: ID is empty\")",
  "r.PrivateShare == nil || r.PrivateShare.IsZero() || r.PublicKey == nil => errors.New(\"config: private share or public key is missing\")",
  "r.VerificationShares == nil => errors.New(\"config: verification shares are missing\")",
  "r.PublicKey.IsIdentity() => errors.New(\"config: public key is the identity\")",
  "l := len(r.ChainKey); l != 0 && l != params.SecBytes => fmt.Errorf(\"config: chain key has %d bytes, expected %d\", l, params.SecBytes)",
  "err := validateShares(r.ID, r.Threshold, present); err != nil => err",
  "!r.VerificationShares.Points[r.ID].Equal(r.PrivateShare.ActOnBase()) => errors.New(\"config: private share does not match this party's verification share\")"
]
def frostUnmarshalCBOR : List String := [
  "err := safecbor.Unmarshal(data, (*plain)(r)); err != nil => err"
]
def frostValidateShares : List String := [
  "n := len(present); threshold < 0 || threshold > math.MaxUint32 || threshold > n-1 => fmt.Errorf(\"config: threshold %d is invalid for %d parties\", threshold, n)",
  "!ok => fmt.Errorf(\"config: party %s: verification share is missing\", id)",
  "!present[self] => errors.New(\"config: no verification share for this party\")"
]
def messageUnmarshalBinary : List String := [
  "err := cbor.Unmarshal(data, &deserialized); err != nil => fmt.Errorf(\"message: %w\", err)",
  "deserialized == nil || deserialized.From == \"\" || deserialized.Protocol == \"\" => errors.New(\"message: no message in data\")"
]
def otSendSetupFields : List String := [
  "_Delta [params.OTBytes]byte",
  "_K_Delta [params.OTParam][params.OTBytes]byte",
  "nil, errors.New(\"CorreOTSendSetup: nil\")",
  "out, nil"
]
def pedersenValidateParameters : List String := [
  "n == nil || s == nil || t == nil => ErrNilFields",
  "!arith.IsValidNatModN(n, s, t) => ErrNotValidModN",
  "_, eq, _ := s.Cmp(t); eq == 1 => ErrSEqualT"
]
def presigUnmarshalCBOR : List String := [
  "err := safecbor.Unmarshal(data, (*plain)(sig)); err != nil => err"
]
def ridValidate : List String := [
  "l := len(rid); l != params.SecBytes => fmt.Errorf(\"rid: incorrect length (got %d, expected %d)\", l, params.SecBytes)",
  "b != 0 => nil"
]
def roundUseFirst : List String := [
]
def signatureUnmarshalCBOR : List String := [
  "err := safecbor.Unmarshal(data, (*plain)(sig)); err != nil => err",
  "sig.R == nil || sig.R.IsIdentity() || sig.S == nil || sig.S.IsZero() => errors.New(\"signature: R is the identity or S is zero\")"
]
def taprootConfigValidate : List String := [
  "r == nil => errors.New(\"config: config is nil\")",
  "r.ID == \"\" => errors.New(\"config: ID is empty\")",
  "r.PrivateShare == nil || r.PrivateShare.IsZero() => errors.New(\"config: private share is missing\")",
  "r.VerificationShares == nil => errors.New(\"config: verification shares are missing\")",
  "_, err := (curve.Secp256k1{}).LiftX(r.PublicKey); err != nil => fmt.Errorf(\"config: public key: %w\", err)",
  "l := len(r.ChainKey); l != 0 && l != params.SecBytes => fmt.Errorf(\"config: chain key has %d bytes, expected %d\", l, params.SecBytes)",
  "err := validateShares(r.ID, r.Threshold, present); err != nil => err",
  "!r.VerificationShares[r.ID].Equal(r.PrivateShare.ActOnBase()) => errors.New(\"config: private share does not match this party's verification share\")"
]
def taprootUnmarshalCBOR : List String := [
  "err := safecbor.Unmarshal(data, (*plain)(r)); err != nil => err"
]
def validateN : List String := [
  "n == nil => ErrPaillierNil",
  "bits := nBig.BitLen(); bits != params.BitsPaillier => fmt.Errorf(\"have: %d, need %d: %w\", bits, params.BitsPaillier, ErrPaillierLength)",
  "nBig.Bit(0) != 1 => ErrPaillierEven"
]
def validatePrime : List String := [
  "p == nil => ErrPrimeNil",
  "bits := p.TrueLen(); bits != bitsWant => fmt.Errorf(\"invalid prime size: have: %d, need %d: %w\", bits, bitsWant, ErrPrimeBadLength)",
  "p.Byte(0)&0b11 != 3 => ErrNotBlum",
  "!p.Big().ProbablyPrime(1) || !pMinus1Div2.Big().ProbablyPrime(1) => ErrNotSafePrime"
]
def zkUnguarded : List String := [
]
end fixed
end Mps.Guards.Pinned
