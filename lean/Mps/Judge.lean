import Mps.Secp256k1
import Mps.Sha2
import Mps.Blake3
import Mps.Commit
/-
  Independent, from-the-textbook judges for what real protocol sessions return (C01, C02, C08, C14):
  ECDSA / Schnorr (library challenge) / BIP-340 verification, Shamir reconstruction at zero,
  consistency of key material. Executable, core-only; written from the standards, not from the library.
-/
namespace Mps.Judge
open Mps Mps.Secp

def q : Nat := Secp.n

/-- `party.ID.Scalar`: the id's bytes as a big-endian number, reduced mod q -/
def idScalar (id : Bytes) : Nat := unbe id % q

def subq (a b : Nat) : Nat := (a + q - b % q) % q

/-- Lagrange coefficient at 0 for node `xj` among nodes `xs` (xj ∈ xs): ∏_{i≠j} x_i / (x_i − x_j) -/
def lagrangeAt0 (xs : List Nat) (xj : Nat) : Nat :=
  let others := xs.filter (· != xj)
  let num := others.foldl (fun a x => a * x % q) 1
  let den := others.foldl (fun a x => a * subq x xj % q) 1
  num * modInv den q % q

/-- Σ λ_j y_j -/
def reconstruct (pts : List (Nat × Nat)) : Nat :=
  let xs := pts.map (·.1)
  pts.foldl (fun a p => (a + lagrangeAt0 xs p.1 * p.2) % q) 0

def reconstructPt (pts : List (Nat × Pt)) : Pt :=
  let xs := pts.map (·.1)
  pts.foldl (fun a p => add a (mul (lagrangeAt0 xs p.1) p.2)) .inf

/-- all sublists of length k -/
def choose : Nat → List α → List (List α)
  | 0, _ => [[]]
  | _ + 1, [] => []
  | k + 1, x :: xs => (choose k xs).map (x :: ·) ++ choose (k + 1) xs

/-- SECG truncation of a hash to a scalar (curve.FromHash for a 256-bit order): leftmost 32 bytes -/
def fromHash (h : Bytes) : Nat := unbe (h.take 32) % q

/-- textbook ECDSA verification of (r, s) with r = R.x mod q, where the signature carries the point R -/
def ecdsaVerify (X : Pt) (digest : Bytes) (R : Pt) (s : Nat) : Bool :=
  match R with
  | .inf => false
  | .aff rx _ =>
    let r := rx % q
    if r == 0 || s % q == 0 || s ≥ q then false
    else
      let m := fromHash digest
      let w := modInv s q
      let P := add (mul (m * w % q) G) (mul (r * w % q) X)
      match P with
      | .inf => false
      | .aff px _ => px % q == r && P == R

/-- the Fiat–Shamir challenge of the library's plain Schnorr signatures (FROST, non-taproot):
    hash.New(); WriteAny(R, Y, messageHash(m)); first 32 digest bytes as a number mod q -/
def frostChallenge (R Y : Pt) (msg : Bytes) : Nat :=
  let items : List Item := [⟨str "*curve.Secp256k1Point", Secp.encode R⟩, ⟨str "*curve.Secp256k1Point", Secp.encode Y⟩,
                            ⟨str "messageHash", msg⟩]
  unbe (Blake3.hashXof (transcript items) 32) % q

/-- Schnorr verification: z·G = R + c·Y -/
def schnorrVerify (Y : Pt) (msg : Bytes) (R : Pt) (z : Nat) : Bool :=
  mul z G == add R (mul (frostChallenge R Y msg) Y)

/-- BIP-340 verification, as in the BIP -/
def bip340Verify (pk msg sig : Bytes) : Bool :=
  if pk.length != 32 || sig.length != 64 then false else
  match liftX (unbe pk) with
  | none => false
  | some P =>
    let r := unbe (sig.take 32)
    let s := unbe (sig.drop 32)
    if r ≥ Secp.p || s ≥ q then false else
    let e := unbe (Sha2.taggedHash "BIP0340/challenge" [sig.take 32, pk, msg]) % q
    match add (mul s G) (neg (mul e P)) with
    | .inf => false
    | .aff x y => y % 2 == 0 && x == r

def decodePt (b : Bytes) : Option Pt := decodeStrict b

end Mps.Judge
