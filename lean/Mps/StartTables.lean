-- written by bin/mkpins (see there). The two known variants of the start functions' guard tables.
namespace Mps.Start.Pinned
namespace head
def cmpCanSign : List String := [
  "!ValidThreshold(c.Threshold, len(signers)) => false",
  "!signers.Valid() => false",
  "!signers.Contains(c.ID) => false",
  "_, ok := c.Public[j]; !ok => false"
]
def cmpKeygenStart : List String := [
  "err != nil => nil, fmt.Errorf(\"keygen: %w\", err)",
  "c != nil => &round1{ Helper: helper, PreviousSecretECDSA: c.ECDSA, PreviousPublicSharesECDSA: PublicSharesECDSA, PreviousChainKey: c.ChainKey, VSSSecret: polynomial.NewPolynomial(group, helper.Threshold(), group.NewScalar()), }, nil"
]
def cmpPresign : List String := [
  "c == nil => nil, errors.New(\"presign: config is nil\")",
  "err != nil => nil, fmt.Errorf(\"sign.Create: %w\", err)",
  "!c.CanSign(helper.PartyIDs()) => nil, errors.New(\"sign.Create: signers is not a valid signing subset\")"
]
def cmpPresignOnline : List String := [
  "c == nil || preSignature == nil => nil, errors.New(\"presign: config or preSignature is nil\")",
  "len(message) == 0 => nil, errors.New(\"sign.Create: message is nil\")",
  "err := preSignature.Validate(); err != nil => nil, fmt.Errorf(\"sign.Create: %w\", err)",
  "!c.CanSign(signers) => nil, errors.New(\"sign.Create: signers is not a valid signing subset\")",
  "err != nil => nil, fmt.Errorf(\"sign.Create: %w\", err)"
]
def cmpRefresh : List String := [
]
def cmpSign : List String := [
  "len(message) == 0 => nil, errors.New(\"sign.Create: message is nil\")",
  "err != nil => nil, fmt.Errorf(\"sign.Create: %w\", err)",
  "!config.CanSign(helper.PartyIDs()) => nil, errors.New(\"sign.Create: signers is not a valid signing subset\")"
]
def cmpValidThreshold : List String := [
  "t < 0 || t > math.MaxUint32 => false",
  "n <= 0 || t > n-1 => false"
]
def doernerRefreshReceiver : List String := [
]
def doernerRefreshSender : List String := [
]
def doernerSignReceiver : List String := [
  "err != nil => nil, fmt.Errorf(\"keygen.StartKeygen: %w\", err)"
]
def doernerSignSender : List String := [
  "err != nil => nil, fmt.Errorf(\"keygen.StartKeygen: %w\", err)"
]
def doernerStartKeygen : List String := [
  "err != nil => nil, fmt.Errorf(\"keygen.StartKeygen: %w\", err)",
  "receiver => &round1R{ Helper: helper, refresh: refresh, secretShare: secretShare, publicShare: publicShare, public: public, receiver: ot.NewCorreOTSetupReceiver(pl, helper.Hash(), helper.Group()), }, nil"
]
def frostKeygenCommon : List String := [
  "err != nil => nil, fmt.Errorf(\"keygen.StartKeygen: %w\", err)"
]
def frostRefresh : List String := [
]
def frostRefreshTaproot : List String := [
  "err != nil => func([]byte) (round.Session, error) { return nil, err }"
]
def frostSign : List String := [
]
def frostSignCommon : List String := [
  "err != nil => nil, fmt.Errorf(\"sign.StartSign: %w\", err)"
]
def frostSignTaproot : List String := [
  "err != nil => func([]byte) (round.Session, error) { return nil, err }"
]
def newSessionGuards : List String := [
  "!partyIDs.Valid() => nil, errors.New(\"session: partyIDs invalid\")",
  "!partyIDs.Contains(info.SelfID) => nil, errors.New(\"session: selfID not included in partyIDs\")",
  "info.Threshold < 0 || info.Threshold > math.MaxUint32 => nil, fmt.Errorf(\"session: threshold %d is invalid\", info.Threshold)",
  "n := len(partyIDs); n <= 0 || info.Threshold > n-1 => nil, fmt.Errorf(\"session: threshold %d is invalid for number of parties %d\", info.Threshold, n)",
  "err = h.WriteAny(&hash.BytesWithDomain{ TheDomain: \"Session ID\", Bytes: sessionID, }); err != nil => nil, fmt.Errorf(\"session: %w\", err)",
  "err = h.WriteAny(&hash.BytesWithDomain{ TheDomain: \"Protocol ID\", Bytes: []byte(info.ProtocolID), }); err != nil => nil, fmt.Errorf(\"session: %w\", err)",
  "err = h.WriteAny(&hash.BytesWithDomain{ TheDomain: \"Group Name\", Bytes: []byte(info.Group.Name()), }); err != nil => nil, fmt.Errorf(\"session: %w\", err)",
  "err = h.WriteAny(partyIDs); err != nil => nil, fmt.Errorf(\"session: %w\", err)",
  "err = h.WriteAny(types.ThresholdWrapper(info.Threshold)); err != nil => nil, fmt.Errorf(\"session: %w\", err)",
  "err = h.WriteAny(a); err != nil => nil, fmt.Errorf(\"session: %w\", err)"
]
def presigValidate : List String := [
  "len(sig.RBar.Points) != len(sig.S.Points) => errors.New(\"presignature: different number of R,S shares\")",
  "S, ok := sig.S.Points[id]; !ok || S.IsIdentity() => errors.New(\"presignature: S invalid\")",
  "R.IsIdentity() => errors.New(\"presignature: RBar invalid\")",
  "sig.R.IsIdentity() => errors.New(\"presignature: R is identity\")",
  "err := sig.ID.Validate(); err != nil => fmt.Errorf(\"presignature: %w\", err)",
  "sig.ChiShare.IsZero() || sig.KShare.IsZero() => errors.New(\"ChiShare or KShare is invalid\")"
]
end head
namespace fixed
def cmpCanSign : List String := [
  "!ValidThreshold(c.Threshold, len(signers)) => false",
  "!signers.Valid() => false",
  "!signers.Contains(c.ID) => false",
  "_, ok := c.Public[j]; !ok => false"
]
def cmpKeygenStart : List String := [
  "info.Group == nil => nil, errors.New(\"keygen: group is nil\")",
  "err != nil => nil, fmt.Errorf(\"keygen: %w\", err)",
  "c != nil => &round1{ Helper: helper, PreviousSecretECDSA: c.ECDSA, PreviousPublicSharesECDSA: PublicSharesECDSA, PreviousChainKey: c.ChainKey, VSSSecret: polynomial.NewPolynomial(group, helper.Threshold(), group.NewScalar()), }, nil"
]
def cmpPresign : List String := [
  "err := c.Validate(); err != nil => nil, fmt.Errorf(\"presign: %w\", err)",
  "err != nil => nil, fmt.Errorf(\"sign.Create: %w\", err)",
  "!c.CanSign(helper.PartyIDs()) => nil, errors.New(\"sign.Create: signers is not a valid signing subset\")"
]
def cmpPresignOnline : List String := [
  "err := c.Validate(); err != nil => nil, fmt.Errorf(\"presign: %w\", err)",
  "len(message) == 0 => nil, errors.New(\"sign.Create: message is nil\")",
  "err := preSignature.Validate(); err != nil => nil, fmt.Errorf(\"sign.Create: %w\", err)",
  "!c.CanSign(signers) => nil, errors.New(\"sign.Create: signers is not a valid signing subset\")",
  "err != nil => nil, fmt.Errorf(\"sign.Create: %w\", err)"
]
def cmpRefresh : List String := [
  "err := config.Validate(); err != nil => func([]byte) (round.Session, error) { return nil, err }"
]
def cmpSign : List String := [
  "err := config.Validate(); err != nil => nil, fmt.Errorf(\"sign.Create: %w\", err)",
  "len(message) == 0 => nil, errors.New(\"sign.Create: message is nil\")",
  "err != nil => nil, fmt.Errorf(\"sign.Create: %w\", err)",
  "!config.CanSign(helper.PartyIDs()) => nil, errors.New(\"sign.Create: signers is not a valid signing subset\")"
]
def cmpValidThreshold : List String := [
  "t < 0 || t > math.MaxUint32 => false",
  "n <= 0 || t > n-1 => false"
]
def doernerRefreshReceiver : List String := [
  "err := config.Validate(); err != nil => func([]byte) (round.Session, error) { return nil, err }"
]
def doernerRefreshSender : List String := [
  "err := config.Validate(); err != nil => func([]byte) (round.Session, error) { return nil, err }"
]
def doernerSignReceiver : List String := [
  "err := config.Validate(); err != nil => nil, fmt.Errorf(\"sign.StartSign: %w\", err)",
  "len(hash) == 0 => nil, errors.New(\"sign.StartSign: message hash is empty\")",
  "err != nil => nil, fmt.Errorf(\"keygen.StartKeygen: %w\", err)"
]
def doernerSignSender : List String := [
  "err := config.Validate(); err != nil => nil, fmt.Errorf(\"sign.StartSign: %w\", err)",
  "len(hash) == 0 => nil, errors.New(\"sign.StartSign: message hash is empty\")",
  "err != nil => nil, fmt.Errorf(\"keygen.StartKeygen: %w\", err)"
]
def doernerStartKeygen : List String := [
  "group == nil => nil, errors.New(\"keygen.StartKeygen: group is nil\")",
  "err != nil => nil, fmt.Errorf(\"keygen.StartKeygen: %w\", err)",
  "receiver => &round1R{ Helper: helper, refresh: refresh, secretShare: secretShare, publicShare: publicShare, public: public, receiver: ot.NewCorreOTSetupReceiver(pl, helper.Hash(), helper.Group()), }, nil"
]
def frostKeygenCommon : List String := [
  "group == nil => nil, errors.New(\"keygen.StartKeygen: group is nil\")",
  "err != nil => nil, fmt.Errorf(\"keygen.StartKeygen: %w\", err)",
  "share, ok := verificationShares[id]; !ok || share == nil => nil, fmt.Errorf(\"keygen.StartKeygen: participant %s is not a shareholder\", id)"
]
def frostRefresh : List String := [
  "err := config.Validate(); err != nil => func([]byte) (round.Session, error) { return nil, err }"
]
def frostRefreshTaproot : List String := [
  "err := config.Validate(); err != nil => func([]byte) (round.Session, error) { return nil, err }",
  "err != nil => func([]byte) (round.Session, error) { return nil, err }"
]
def frostSign : List String := [
  "err := config.Validate(); err != nil => func([]byte) (round.Session, error) { return nil, err }"
]
def frostSignCommon : List String := [
  "len(messageHash) == 0 => nil, errors.New(\"sign.StartSign: message is empty\")",
  "share, ok := result.VerificationShares.Points[id]; !ok || share == nil => nil, fmt.Errorf(\"sign.StartSign: signer %s is not a shareholder\", id)",
  "err != nil => nil, fmt.Errorf(\"sign.StartSign: %w\", err)"
]
def frostSignTaproot : List String := [
  "err := config.Validate(); err != nil => func([]byte) (round.Session, error) { return nil, err }",
  "err != nil => func([]byte) (round.Session, error) { return nil, err }"
]
def newSessionGuards : List String := [
  "!partyIDs.Valid() => nil, errors.New(\"session: partyIDs invalid\")",
  "err := validateIDs(partyIDs, info.Group); err != nil => nil, err",
  "!partyIDs.Contains(info.SelfID) => nil, errors.New(\"session: selfID not included in partyIDs\")",
  "info.Threshold < 0 || info.Threshold > math.MaxUint32 => nil, fmt.Errorf(\"session: threshold %d is invalid\", info.Threshold)",
  "n := len(partyIDs); n <= 0 || info.Threshold > n-1 => nil, fmt.Errorf(\"session: threshold %d is invalid for number of parties %d\", info.Threshold, n)",
  "err = h.WriteAny(&hash.BytesWithDomain{ TheDomain: \"Session ID\", Bytes: sessionID, }); err != nil => nil, fmt.Errorf(\"session: %w\", err)",
  "err = h.WriteAny(&hash.BytesWithDomain{ TheDomain: \"Protocol ID\", Bytes: []byte(info.ProtocolID), }); err != nil => nil, fmt.Errorf(\"session: %w\", err)",
  "err = h.WriteAny(&hash.BytesWithDomain{ TheDomain: \"Group Name\", Bytes: []byte(info.Group.Name()), }); err != nil => nil, fmt.Errorf(\"session: %w\", err)",
  "err = h.WriteAny(partyIDs); err != nil => nil, fmt.Errorf(\"session: %w\", err)",
  "err = h.WriteAny(types.ThresholdWrapper(info.Threshold)); err != nil => nil, fmt.Errorf(\"session: %w\", err)",
  "err = h.WriteAny(a); err != nil => nil, fmt.Errorf(\"session: %w\", err)"
]
def presigValidate : List String := [
  "sig == nil || sig.R == nil || sig.RBar == nil || sig.S == nil || sig.KShare == nil || sig.ChiShare == nil => errors.New(\"presignature: missing fields\")",
  "len(sig.RBar.Points) != len(sig.S.Points) => errors.New(\"presignature: different number of R,S shares\")",
  "S, ok := sig.S.Points[id]; !ok || S == nil || S.IsIdentity() => errors.New(\"presignature: S invalid\")",
  "R == nil || R.IsIdentity() => errors.New(\"presignature: RBar invalid\")",
  "sig.R.IsIdentity() => errors.New(\"presignature: R is identity\")",
  "err := sig.ID.Validate(); err != nil => fmt.Errorf(\"presignature: %w\", err)",
  "sig.ChiShare.IsZero() || sig.KShare.IsZero() => errors.New(\"ChiShare or KShare is invalid\")"
]
end fixed
end Mps.Start.Pinned
