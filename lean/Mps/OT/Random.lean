import Mps.OT.Bits
import Mps.OT.Ops
/-
  random.go — the base ("random") oblivious transfer, one instance, and correlated.go's setup
  (OTParam instances in parallel).

  Abstract in the group (`GroupOps`) and in the hash: `H : Bytes → Nat` stands for the instance's
  keyed BLAKE3 (`blake3.NewKeyed(nonce)`; every use is Reset / Write / Digest().Read of one
  [OTBytes]byte block, modelled by the block's little-endian value).  The Schnorr proof that
  accompanies the setup message is the business of C10 and is not part of this model.
-/
namespace Mps.OT

/-- the bytes of a `[params.OTBytes]byte` block, as fed back into the hash -/
def blk (x : Nat) : Bytes := leBytes otBytes x

/-- `RandomOTSendSetup`: secret key `b`, `_B = b·G`, `_bB = b·_B` -/
structure ROTSendSetup (F G : Type) where
  b  : F
  B  : G
  bB : G

/-- `RandomOTSetupSend` (without the Schnorr proof) -/
def rotSetupSend {F G : Type} (Gp : GroupOps F G) (b : F) : ROTSendSetup F G :=
  let B := Gp.smul b Gp.base
  { b := b, B := B, bB := Gp.smul b B }

/-- `RandomOTReceiever.Round1` with sampled scalar `a`: the message `ABytes` and `randChoice`.
      A = a·G,  message = A or A + B according to the choice,  randChoice = H(a·B) -/
def rotRecvRound1 {F G : Type} (Gp : GroupOps F G) (H : Bytes → Nat) (B : G) (choice : Bool) (a : F) :
    Bytes × Nat :=
  let A := Gp.smul a Gp.base
  let aBytes := Gp.enc A
  let aPlusB := Gp.enc (Gp.add A B)
  (if choice then aPlusB else aBytes, H (Gp.enc (Gp.smul a B)))

/-- state of `RandomOTSender` after `Round1` -/
structure ROTSenderState where
  rand0 : Nat
  rand1 : Nat
  decommit0 : Nat
  decommit1 : Nat
  hDecommit0 : Nat
  deriving Repr, DecidableEq

/-- `RandomOTSender.Round1`: pads rand0 = H(b·A), rand1 = H(b·A − b·B); the challenge
    H(H(rand0)) ⊕ H(H(rand1)). `none` = the point failed to unmarshal. -/
def rotSendRound1 {F G : Type} (Gp : GroupOps F G) (H : Bytes → Nat) (s : ROTSendSetup F G) (aBytes : Bytes) :
    Option (Nat × ROTSenderState) :=
  match Gp.dec aBytes with
  | none => none
  | some A =>
    let bA := Gp.smul s.b A
    let rand0 := H (Gp.enc bA)
    let rand1 := H (Gp.enc (Gp.sub bA s.bB))
    let decommit0 := H (blk rand0)
    let decommit1 := H (blk rand1)
    let hDecommit0 := H (blk decommit0)
    let challenge := H (blk decommit1) ^^^ hDecommit0
    some (challenge, { rand0, rand1, decommit0, decommit1, hDecommit0 })

/-- `RandomOTReceiever.Round2`: (response, hh_randChoice) with
    response = H(H(randChoice)) ⊕ (choice · challenge) -/
def rotRecvRound2 (H : Bytes → Nat) (choice : Bool) (randChoice challenge : Nat) : Nat × Nat :=
  let hh := H (blk (H (blk randChoice)))
  (hh ^^^ maskBit choice challenge, hh)

/-- `RandomOTSender.Round2`: checks the response, releases the decommitments and the two pads -/
def rotSendRound2 (st : ROTSenderState) (response : Nat) : Option ((Nat × Nat) × (Nat × Nat)) :=
  if response ≠ st.hDecommit0 then none
  else some ((st.decommit0, st.decommit1), (st.rand0, st.rand1))

/-- `RandomOTReceiever.Round3`: both checks on the decommitments; the received pad on success -/
def rotRecvRound3 (H : Bytes → Nat) (choice : Bool) (randChoice receivedChallenge hh : Nat)
    (decommit0 decommit1 : Nat) : Option Nat :=
  let h0 := H (blk decommit0)
  let h1 := H (blk decommit1)
  let actualChallenge := h0 ^^^ h1
  if receivedChallenge ≠ actualChallenge then none
  else
    let hChoice := h0 ^^^ maskBit choice (h0 ^^^ h1)
    if hChoice ≠ hh then none else some randChoice

/-- everything one honest instance produces (messages and results), for the correspondence run -/
structure ROTTrace where
  aBytes : Bytes
  challenge : Nat
  response : Nat
  decommit0 : Nat
  decommit1 : Nat
  randChoice : Nat
  rand0 : Nat
  rand1 : Nat
  deriving Repr

/-- one complete honest instance: receiver with (choice, a), sender with setup `s` -/
def rotRun {F G : Type} (Gp : GroupOps F G) (H : Bytes → Nat) (s : ROTSendSetup F G) (choice : Bool) (a : F) :
    Option ROTTrace :=
  let (aBytes, randChoice) := rotRecvRound1 Gp H s.B choice a
  match rotSendRound1 Gp H s aBytes with
  | none => none
  | some (challenge, st) =>
    let (response, hh) := rotRecvRound2 H choice randChoice challenge
    match rotSendRound2 st response with
    | none => none
    | some ((d0, d1), (r0, r1)) =>
      match rotRecvRound3 H choice randChoice challenge hh d0 d1 with
      | none => none
      | some rc => some { aBytes, challenge, response, decommit0 := d0, decommit1 := d1,
                          randChoice := rc, rand0 := r0, rand1 := r1 }

/-! ### correlated.go: the setup of the correlated OT = OTParam random OTs

The *sender* of the correlated OT plays the random-OT **receiver** with choice bits `Δ`;
the *receiver* of the correlated OT plays the random-OT **sender**. -/

/-- `CorreOTSendSetup` -/
structure CorreSendSetup where
  delta : Nat
  kDelta : List Nat
  deriving Repr, DecidableEq

/-- `CorreOTReceiveSetup` -/
structure CorreRecvSetup where
  k0 : List Nat
  k1 : List Nat
  deriving Repr, DecidableEq

/-- the traces of the `n` instances `0 … n-1`; instance `i` uses the hash keyed with nonce `i`,
    choice bit `Δ_i` and the scalar `as[i]` -/
def correSetupTraces {F G : Type} (Gp : GroupOps F G) (Hn : Nat → Bytes → Nat) (zero : F)
    (s : ROTSendSetup F G) (delta : Nat) (as : List F) : Nat → Option (List ROTTrace)
  | 0 => some []
  | n + 1 =>
    match correSetupTraces Gp Hn zero s delta as n with
    | none => none
    | some ts =>
      match rotRun Gp (Hn n) s (bitAt n delta) (as.getD n zero) with
      | none => none
      | some t => some (ts ++ [t])

/-- the complete honest setup (all rounds of `CorreOTSetupSender` / `CorreOTSetupReceiver`) -/
def correSetup {F G : Type} (Gp : GroupOps F G) (Hn : Nat → Bytes → Nat) (zero : F)
    (b : F) (delta : Nat) (as : List F) : Option (CorreSendSetup × CorreRecvSetup) :=
  match correSetupTraces Gp Hn zero (rotSetupSend Gp b) delta as otParam with
  | none => none
  | some ts =>
    some ({ delta := delta, kDelta := ts.map (·.randChoice) },
          { k0 := ts.map (·.rand0), k1 := ts.map (·.rand1) })

/-- the relation the setup establishes: K_Δ[i] is K_1[i] or K_0[i] according to bit `i` of Δ -/
def SetupRel (ss : CorreSendSetup) (rs : CorreRecvSetup) : Prop :=
  ss.delta < 2 ^ otParam ∧
  ∀ i, i < otParam → ss.kDelta.getD i 0 = if ss.delta.testBit i then rs.k1.getD i 0 else rs.k0.getD i 0

end Mps.OT
