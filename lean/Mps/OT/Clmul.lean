import Mps.OT.Bits
/-
  extended.go: `fieldElement` ([4]uint64, little-endian words) and `accumulate`.

  A field element is modelled by the 256-bit natural number whose 64-bit little-endian limbs are
  the Go words. `accumulate` (f += a·b, carry-less) is transcribed loop by loop:

      for i := 63; i >= 0; i-- {
          for j := 0; j < 2; j++ {                       // the two 64-bit words of a
              mask := -((a64[j] >> i) & 1)
              for k := 0; k < 2; k++ { scratch[j+k] ^= mask & b64[k] }     // scratch ^= b << 64j
          }
          if i != 0 { scratch.shl1() }                   // 256-bit shift: the top bit is dropped
      }
      f ^= scratch

  The code never reduces modulo a field polynomial: despite the name, the "field element" is the
  plain 255-bit product in GF(2)[X]; `MpsProofs.OTClmul` proves exactly that.
-/
namespace Mps.OT

/-- `fieldElement.shl1` on 4×64 bits: shift left by one, the bit shifted out of word 3 is lost -/
def shl1 (f : Nat) : Nat := (f <<< 1) % 2 ^ 256

/-- the body of the outer loop of `accumulate` for bit index `i` (words `j = 0, 1` of `a`) -/
def accStep (a b : Nat) (i : Nat) (s : Nat) : Nat :=
  let s := s ^^^ maskBit (a.testBit i) b
  let s := s ^^^ maskBit (a.testBit (64 + i)) (b <<< 64)
  if i ≠ 0 then shl1 s else s

/-- `accLoop a b n s`: the iterations `i = n-1, …, 0` of the outer loop, from scratch value `s` -/
def accLoop (a b : Nat) : Nat → Nat → Nat
  | 0, s => s
  | n + 1, s => accLoop a b n (accStep a b n s)

/-- the `scratch` value at the end of `accumulate(a, b)` -/
def clmulCoded (a b : Nat) : Nat := accLoop a b 64 0

/-- extended.go `(*fieldElement).accumulate`: `f ^= a ⊗ b` -/
def accumulate (f a b : Nat) : Nat := f ^^^ clmulCoded a b

/-- specification: carry-less (GF(2)[X]) product of the `n` low bits of `a` with `b` -/
def clSum (a b : Nat) : Nat → Nat
  | 0 => 0
  | n + 1 => clSum a b n ^^^ maskBit (a.testBit n) (b <<< n)

/-- carry-less product of two 128-bit vectors -/
def clmul (a b : Nat) : Nat := clSum a b 128

end Mps.OT
