import Mps.Bytes
import Mps.Secp256k1
/-
  "One definition, two instantiations": the OT algorithms are written over plain records of
  operations. They are executed with `natOps`/`secpOps` (scalars mod the group order, the
  secp256k1 model) in the correspondence run and proved about with the lawful records built from
  `[Field F] [AddCommGroup G] [Module F G]` in `MpsProofs/OT*.lean`.
-/
namespace Mps.OT

/-- scalar operations (`curve.Scalar`) -/
structure FieldOps (F : Type) where
  zero : F
  one  : F
  add  : F → F → F
  sub  : F → F → F
  neg  : F → F
  mul  : F → F → F
  /-- `Scalar.Equal` -/
  eq   : F → F → Bool
  /-- the canonical representative written by `MarshalBinary` (32 bytes big-endian) -/
  repr : F → Nat
  /-- `SetNat` (reduction modulo the group order) -/
  ofNat : Nat → F

/-- group operations (`curve.Point`) with scalars `F` -/
structure GroupOps (F G : Type) where
  add  : G → G → G
  sub  : G → G → G
  smul : F → G → G
  base : G
  /-- `MarshalBinary` -/
  enc  : G → Bytes
  /-- `UnmarshalBinary` -/
  dec  : Bytes → Option G

/-- scalars modulo `q` as natural numbers `< q` -/
def natOps (q : Nat) : FieldOps Nat where
  zero := 0
  one := 1 % q
  add a b := (a + b) % q
  sub a b := (a + (q - b % q)) % q
  neg a := (q - a % q) % q
  mul a b := (a * b) % q
  eq a b := a == b
  repr a := a
  ofNat a := a % q

/-- the secp256k1 model (`Mps.Secp`), scalars mod `Secp.n` -/
def secpOps : GroupOps Nat Secp.Pt where
  add := Secp.add
  sub P Q := Secp.add P (Secp.neg Q)
  smul k P := Secp.mul k P
  base := Secp.G
  enc := Secp.encode
  dec := Secp.decodeStrict

/-- Σᵢ aᵢ·bᵢ with the record's operations, accumulated left to right onto `acc`
    (the `share.Add(mul.Set(x).Mul(g))` loops) -/
def FieldOps.dotFrom {F : Type} (O : FieldOps F) : F → List F → List F → F
  | acc, a :: as, b :: bs => FieldOps.dotFrom O (O.add acc (O.mul a b)) as bs
  | acc, _, _ => acc

def FieldOps.dot {F : Type} (O : FieldOps F) (as bs : List F) : F := O.dotFrom O.zero as bs

/-- a bit as a scalar (`SetNat(SetUint64(bit))`) -/
def FieldOps.ofBit {F : Type} (O : FieldOps F) (b : Bool) : F := if b then O.one else O.zero

end Mps.OT
