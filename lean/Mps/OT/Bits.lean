import Mps.Bytes
/-
  M4 (OT stack), bit level.  /repo/internal/ot/bits.go, correlated.go (transposeBits)

  Representation. A Go bit vector `[]byte` / `[params.OTBytes]byte` is modelled by the natural
  number whose binary digits are the bits in the code's own order:

      bitAt(i, data) = (data[i>>3] >> (i & 7)) & 1        ⇝      (leNat data).testBit i

  i.e. `leNat` reads the byte string little-endian (byte 0 is least significant, and inside a byte
  the LSB comes first — exactly the indexing of `bitAt`). XOR of byte strings is `^^^` on `Nat`,
  a conditional mask `-bit & v` is `if bit then v else 0`.  `bitAtBytes` is the byte-level
  transcription; `MpsProofs.OTBits.bitAtBytes_eq` proves it is `testBit ∘ leNat`.
-/
namespace Mps.OT

def otParam : Nat := 128      -- params.OTParam
def otBytes : Nat := 16       -- params.OTBytes = OTParam / 8
def statParam : Nat := 80     -- params.StatParam

/-- little-endian value of a byte string: bit `i` of the result is `bitAt(i, data)` -/
def leNat : Bytes → Nat
  | [] => 0
  | b :: bs => b.toNat + 256 * leNat bs

/-- `k`-byte little-endian encoding (truncating) -/
def leBytes : Nat → Nat → Bytes
  | 0, _ => []
  | k + 1, n => UInt8.ofNat (n % 256) :: leBytes k (n / 256)

/-- bits.go `bitAt`, transcribed on bytes: `(data[i>>3] >> (i & 0b111)) & 1`
    (an index past the end is a Go panic; the model reads a zero byte there) -/
def bitAtBytes (i : Nat) (data : Bytes) : UInt8 :=
  ((data.getD (i >>> 3) 0) >>> (UInt8.ofNat (i &&& 7))) &&& 1

/-- `bitAt` on the `Nat` representation -/
@[inline] def bitAt (i : Nat) (v : Nat) : Bool := v.testBit i

/-- `mask & v` with `mask = -bit` -/
@[inline] def maskBit (b : Bool) (v : Nat) : Nat := if b then v else 0

/-- correlated.go `transposeBits`, one row: `MT[i][j>>3] |= bitAt(i, M[j]) << (j & 0b111)` for
    `j = 0 .. OTParam-1`; `M` is the list of the `OTParam` columns. -/
def transposeRow (M : List Nat) (i : Nat) : Nat :=
  (List.range otParam).foldl (fun row j => row ||| ((bitAt i (M.getD j 0)).toNat <<< j)) 0

/-- correlated.go `transposeBits(l, M)`: the `l` rows of the bit matrix whose columns are `M` -/
def transposeBits (l : Nat) (M : List Nat) : List Nat :=
  (List.range l).map (transposeRow M)

end Mps.OT
