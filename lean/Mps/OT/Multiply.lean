import Mps.OT.Extend
/-
  additive.go (AdditiveOTSender.Round1 / AdditiveOTReceiver.Round2) and multiply.go
  (makeGadget, encode, MultiplySender.Round1, MultiplyReceiver.Round2), over `FieldOps`.
-/
namespace Mps.OT

/-! ### additive OT -/

/-- `AdditiveOTSender.Round1` after the extended OT: for every `i < l`
      result[i]   = PRG(V0[i])                       (two scalars)
      combined[i] = PRG(V1[i]) − result[i] + α       (componentwise)
    returns (combined, result). -/
def additiveSend {F : Type} (O : FieldOps F) (h : OTHash F) (V0 V1 : List Nat) (l : Nat) (alpha : F × F) :
    List (F × F) × List (F × F) :=
  let result := (List.range l).map fun i => h.sc2 (V0.getD i 0)
  let combined := (List.range l).map fun i =>
    let r := h.sc2 (V0.getD i 0)
    let c := h.sc2 (V1.getD i 0)
    (O.add (O.sub c.1 r.1) alpha.1, O.add (O.sub c.2 r.2) alpha.2)
  (combined, result)

/-- `AdditiveOTReceiver.Round2`: result[i] = −PRG(VChoice[i]) + (choice_i · combined[i]).
    (The code masks the bytes of the combined pad with `-choice_i` and then unmarshals them:
    all-zero bytes are the zero scalar.) -/
def additiveRecv {F : Type} (O : FieldOps F) (h : OTHash F) (VC : List Nat) (l : Nat) (choices : Nat)
    (combined : List (F × F)) : List (F × F) :=
  (List.range l).map fun i =>
    let p := h.sc2 (VC.getD i 0)
    let m := combined.getD i (O.zero, O.zero)
    let c := bitAt i choices
    (O.add (O.neg p.1) (if c then m.1 else O.zero), O.add (O.neg p.2) (if c then m.2 else O.zero))


/-! ### the masking loops of `AdditiveOTReceiver.Round2`, index by index

additive.go masks the bytes of `CombinedPads[i][k]` (after checking `len(CombinedPads) == batchSize`) with

    for j := 0; j < len(msg.CombinedPads[i][k]); j++ { msg.CombinedPads[i][k][j] &= mask }

The functions below are this loop with Go's index checks (`none` = index out of range, i.e. a panic;
`some n` = the loop ends normally after masking `n` bytes). `lens[p]` is `len(CombinedPads[p][k])`.
The scalar-level `additiveRecv` above is what the loop computes when every index is in range —
which, for the loop as it now stands, is always (`additive_mask_loop_in_range`). -/
def maskLoopCoded (lens : List Nat) (i : Nat) : Nat → Nat → Option Nat
  | 0, j => some j
  | fuel + 1, j =>
    match lens[i]? with
    | none => none                                   -- msg.CombinedPads[i] with i ≥ len(CombinedPads)
    | some li =>
      if j < li then
        -- body: msg.CombinedPads[i][k][j] with j < len(msg.CombinedPads[i][k]): in range
        maskLoopCoded lens i fuel (j + 1)
      else some j

/-- the loop as it was before fix commit eab5a8f:

        for j := 0; j < len(msg.CombinedPads[j][k]); j++ { msg.CombinedPads[i][k][j] &= mask }

    — the loop BOUND read the length of pad number `j` (the byte counter), not of pad `i`. Kept as the
    witness of the repaired defect (`additive_mask_loop_range_old`). -/
def maskLoopCodedOld (lens : List Nat) (i : Nat) : Nat → Nat → Option Nat
  | 0, j => some j
  | fuel + 1, j =>
    match lens[j]? with
    | none => none                                   -- len(msg.CombinedPads[j][k]) with j ≥ len(CombinedPads)
    | some lj =>
      if j < lj then
        match lens[i]? with
        | none => none                               -- msg.CombinedPads[i]
        | some li => if j < li then maskLoopCodedOld lens i fuel (j + 1) else none   -- …[i][k][j]
      else some j

/-! ### the gadget vector and the encoding of β -/

/-- `group.ScalarBits()` rounded up to a multiple of 8 (the code calls this `scalarBytes`) -/
def scalarBits : Nat := 256
/-- number of noise entries: `8 * ((ScalarBits + 2*StatParam + 7) / 8)` -/
def noiseLen : Nat := 8 * ((256 + 2 * statParam + 7) / 8)
/-- `len(gadget)` -/
def gadgetLen : Nat := scalarBits + noiseLen

/-- `k` doublings of one (`acc.Add(acc)`) -/
def pow2 {F : Type} (O : FieldOps F) : Nat → F
  | 0 => O.one
  | k + 1 => let a := pow2 O k; O.add a a

/-- the exponent stored at index `idx` of the power-of-two part of the gadget:
    `out[(i<<3)|j]` receives the accumulator after `8·(31−i) + j` doublings
    (bytes in big-endian order, bits LSB first inside a byte) -/
def gadgetExp (idx : Nat) : Nat := 8 * (31 - idx / 8) + idx % 8

/-- `makeGadget`: powers of two in the code's order, then the public noise -/
def makeGadget {F : Type} (O : FieldOps F) (h : OTHash F) : List F :=
  ((List.range scalarBits).map fun idx => pow2 O (gadgetExp idx)) ++ h.noise noiseLen

/-- the accumulator of `encode`: β − Σᵢ γᵢ·noise[i] -/
def encodeAcc {F : Type} (O : FieldOps F) (beta : F) (noise : List F) (gamma : Nat) : F :=
  forRange noise.length beta fun acc i => O.sub acc (O.mul (O.ofBit (bitAt i gamma)) (noise.getD i O.zero))

/-- the bits of a marshalled scalar in the order `bitAt` reads them: 32 big-endian bytes, read
    little-endian -/
def scalarChoiceBits (v : Nat) : Nat := leNat (beN 32 v)

/-- `encode(β, noise)` with the sampled bits γ: the choice vector
    `MarshalBinary(β − Σ γᵢ·noise[i]) ‖ γ` as a bit vector -/
def encode {F : Type} (O : FieldOps F) (beta : F) (noise : List F) (gamma : Nat) : Nat :=
  scalarChoiceBits (O.repr (encodeAcc O beta noise gamma)) ||| ((gamma % 2 ^ noise.length) <<< scalarBits)

/-! ### the multiplication -/

/-- `MultiplySendRound1Message` (scalars already unmarshalled) -/
structure MulSendMsg (F : Type) where
  combined : List (F × F)
  rCheck : List F
  uCheck : F

/-- `MultiplySender.Round1` after the additive OT produced `result` (the sender's pads):
      uCheck = α₀χ₀ + α₁χ₁,  rCheck[i] = result[i]₀χ₀ + result[i]₁χ₁,  share = Σ result[i]₀·gadget[i] -/
def mulSendFinish {F : Type} (O : FieldOps F) (chi : F × F) (gadget : List F) (alpha : F × F)
    (result : List (F × F)) : List F × F × F :=
  let uCheck := O.add (O.add O.zero (O.mul alpha.1 chi.1)) (O.mul alpha.2 chi.2)
  let rCheck := result.map fun r => O.add (O.add O.zero (O.mul r.1 chi.1)) (O.mul r.2 chi.2)
  let share := O.dot (result.map (·.1)) gadget
  (rCheck, uCheck, share)

/-- the integrity check of `MultiplyReceiver.Round2` at index `i` -/
def mulCheckAt {F : Type} (O : FieldOps F) (chi : F × F) (choices : Nat) (rCheck : List F) (uCheck : F)
    (i : Nat) (r : F × F) : Bool :=
  let left := O.add (O.mul r.1 chi.1) (O.mul r.2 chi.2)
  let right := O.sub (O.mul (O.ofBit (bitAt i choices)) uCheck) (rCheck.getD i O.zero)
  O.eq left right

/-- `MultiplyReceiver.Round2` after the additive OT produced `result`: the check for every `i`,
    then share = Σ result[i]₀·gadget[i]; `none` = "integrity check failed" -/
def mulRecvFinish {F : Type} (O : FieldOps F) (chi : F × F) (gadget : List F) (choices : Nat)
    (rCheck : List F) (uCheck : F) (result : List (F × F)) : Option F :=
  if (List.range result.length).all fun i => mulCheckAt O chi choices rCheck uCheck i (result.getD i (O.zero, O.zero))
  then some (O.dot (result.map (·.1)) gadget)
  else none

/-! ### both parties, end to end (honest run of one multiplication on a given setup) -/

/-- sender's first round on the receiver's message -/
def mulSenderRound1 {F : Type} (O : FieldOps F) (h : OTHash F) (ss : CorreSendSetup) (alpha : F × F)
    (msg : ExtMsg) : Option (MulSendMsg F × F) :=
  let gadget := makeGadget O h
  match extSend h ss gadget.length msg with
  | none => none
  | some (V0, V1) =>
    let (combined, result) := additiveSend O h V0 V1 gadget.length alpha
    let (rCheck, uCheck, share) := mulSendFinish O (h.mchi msg.U) gadget alpha result
    some ({ combined, rCheck, uCheck }, share)

/-- receiver: the choice vector and the first message -/
def mulReceiverRound1 {F : Type} (O : FieldOps F) (h : OTHash F) (rs : CorreRecvSetup) (beta : F)
    (gamma extra : Nat) : Nat × ExtMsg × List Nat :=
  let gadget := makeGadget O h
  let choices := encode O beta (gadget.drop scalarBits) gamma
  let (msg, VC) := extReceive h rs gadget.length choices extra
  (choices, msg, VC)

/-- receiver's second round (the shape checks on the received message, the additive OT, the
    integrity check; nil message parts are not representable at this level) -/
def mulReceiverRound2 {F : Type} (O : FieldOps F) (h : OTHash F) (choices : Nat) (U : List Nat) (VC : List Nat)
    (m : MulSendMsg F) : Option F :=
  let gadget := makeGadget O h
  -- multiply.go Round2: `len(msg.RCheck) != len(r.gadget)` ⇒ "malformed message"
  if m.rCheck.length ≠ gadget.length then none
  -- additive.go Round2: `len(msg.CombinedPads) != batchSize` ⇒ "incorrect batch size in message"
  else if m.combined.length ≠ gadget.length then none
  else
    let result := additiveRecv O h VC gadget.length choices m.combined
    mulRecvFinish O (h.mchi U) gadget choices m.rCheck m.uCheck result

/-- one honest multiplication: sender input α (and its second, random pad scalar α₁), receiver
    input β with encoding randomness γ and extended-OT extra choices. Returns both shares. -/
def multiplyRun {F : Type} (O : FieldOps F) (h : OTHash F) (ss : CorreSendSetup) (rs : CorreRecvSetup)
    (alpha alpha1 beta : F) (gamma extra : Nat) : Option (F × F) :=
  let (choices, msg, VC) := mulReceiverRound1 O h rs beta gamma extra
  match mulSenderRound1 O h ss (alpha, alpha1) msg with
  | none => none
  | some (m, shareS) =>
    match mulReceiverRound2 O h choices msg.U VC m with
    | none => none
    | some shareR => some (shareS, shareR)

end Mps.OT
