import Mps.OT.Clmul
import Mps.OT.Random
/-
  correlated.go (CorreOTSend / CorreOTReceive) and extended.go (ExtendedOTSend / ExtendedOTReceive).

  All hash / PRG outputs are abstract (`OTHash`): the theorems hold for ANY functions in their
  place; the correspondence run instantiates them with BLAKE3 (`Mps.OT.Concrete`).
-/
namespace Mps.OT

/-- the hash-derived functions of one protocol context (`ctxHash`) -/
structure OTHash (F : Type) where
  /-- the PRG of the correlated OT: key block ↦ column of `nbits` bits
      (`blake3.NewKeyed(prgKey)`, Write(K), Digest().Read(nbits/8 bytes)) -/
  prg : Nat → Nat → Nat
  /-- the check weights χ₀ … χ_{n-1} of the extended OT, read from the context hash after the
      columns `U` have been written into it -/
  chis : List Nat → Nat → List Nat
  /-- the pad hash of the extended OT: `BLAKE3(be32 i ‖ row)` -/
  pad : Nat → Nat → Nat
  /-- additive OT: the two scalars expanded from a pad block -/
  sc2 : Nat → F × F
  /-- multiply: the `n` public noise scalars of the gadget vector -/
  noise : Nat → List F
  /-- multiply: the two check weights χ₀, χ₁ (context hash after `U` was written) -/
  mchi : List Nat → F × F

/-- `for i := 0; i < n; i++ { st = body(st, i) }` -/
def forRange {α : Type} (n : Nat) (init : α) (body : α → Nat → α) : α :=
  (List.range n).foldl body init

/-! ### correlated OT -/

/-- `CorreOTReceive`: choices `x` (`l` bits). Returns the message columns `U` and the rows of `T`.
      T0[i] = PRG(K_0[i]),  T1[i] = PRG(K_1[i]),  U[i] = T0[i] ⊕ T1[i] ⊕ x,  T = transpose(T0) -/
def correReceive {F : Type} (h : OTHash F) (s : CorreRecvSetup) (l : Nat) (x : Nat) : List Nat × List Nat :=
  let T0 := (List.range otParam).map fun i => h.prg (s.k0.getD i 0) l
  let T1 := (List.range otParam).map fun i => h.prg (s.k1.getD i 0) l
  let U := (List.range otParam).map fun i => T0.getD i 0 ^^^ T1.getD i 0 ^^^ x
  (U, transposeBits l T0)

/-- `CorreOTSend`: Q[i] = PRG(K_Δ[i]) ⊕ (Δ_i · U[i]); returns the rows of Q.
    (The length check on `U[i]` lives at the byte level: see the driver.) -/
def correSend {F : Type} (h : OTHash F) (s : CorreSendSetup) (l : Nat) (U : List Nat) : List Nat :=
  let Q := (List.range otParam).map fun i =>
    h.prg (s.kDelta.getD i 0) l ^^^ maskBit (bitAt i s.delta) (U.getD i 0)
  transposeBits l Q

/-! ### extended OT (KOS15 Figure 7) -/

def inflate (l : Nat) : Nat := l + otParam + statParam

/-- `ExtendedOTReceiveMessage` -/
structure ExtMsg where
  U : List Nat
  X : Nat
  T : Nat
  deriving Repr, DecidableEq

/-- the inflated choice vector: the `l` real choices followed by the random extra bits -/
def inflatedChoices (l choices extra : Nat) : Nat := choices ||| (extra <<< l)

/-- `ExtendedOTReceive`: message and `_VChoices` -/
def extReceive {F : Type} (h : OTHash F) (s : CorreRecvSetup) (l : Nat) (choices extra : Nat) :
    ExtMsg × List Nat :=
  let l' := inflate l
  let x := inflatedChoices l choices extra
  let (U, T) := correReceive h s l' x
  let chi := h.chis U l'
  let X := forRange l' 0 fun acc i => acc ^^^ maskBit (bitAt i x) (chi.getD i 0)
  let Tt := forRange l' 0 fun acc i => accumulate acc (T.getD i 0) (chi.getD i 0)
  let V := (List.range l).map fun i => h.pad i (T.getD i 0)
  ({ U := U, X := X, T := Tt }, V)

/-- `ExtendedOTSend`: the consistency check, then `(_V0, _V1)`; `none` = "monochrome check failed" -/
def extSend {F : Type} (h : OTHash F) (s : CorreSendSetup) (l : Nat) (msg : ExtMsg) :
    Option (List Nat × List Nat) :=
  let l' := inflate l
  let Q := correSend h s l' msg.U
  let chi := h.chis msg.U l'
  let q := forRange l' 0 fun acc i => accumulate acc (Q.getD i 0) (chi.getD i 0)
  let q := accumulate q msg.X s.delta
  if q ≠ msg.T then none
  else
    let V0 := (List.range l).map fun i => h.pad i (Q.getD i 0)
    let V1 := (List.range l).map fun i => h.pad i (Q.getD i 0 ^^^ s.delta)
    some (V0, V1)

end Mps.OT
