import Mps.OT.Multiply
import Mps.Frame
import Mps.Blake3
/-
  The concrete instance the correspondence run executes: scalars mod the secp256k1 group order,
  the secp256k1 model, BLAKE3 for every hash, and the transcript framing of `hash.Hash` for the
  context hash `ctxHash`.

  NOTE (modelled as the code behaves, reported as a finding): every fork in package ot is
      ctxHash.Fork(&hash.BytesWithDomain{TheDomain: "...", Bytes: nil})
  and `BytesWithDomain.WriteTo` refuses `Bytes == nil` (io.ErrUnexpectedEOF); `Fork` drops the
  error, so NOTHING is written: the fork is a plain clone and the domain strings
  "CorreOT PRG Key", "CorreOT Random OT Nonces", "Multiply Gadget Sampling" and
  "Multiply Chi Sampling" never reach the hash. `forkNilBytes` is therefore the identity.
-/
namespace Mps.OT
open Mps

def q : Nat := Secp.n
def scalarOps : FieldOps Nat := natOps q

/-- `Fork(&hash.BytesWithDomain{TheDomain: d, Bytes: nil})`: the write is refused, the error ignored -/
def forkNilBytes (ctx : List Item) (_domain : String) : List Item := ctx

/-- `n` bytes of `ctxHash.Digest()` starting at `off` -/
def ctxDigest (ctx : List Item) (off n : Nat) : Bytes :=
  Blake3.xofFrom none (transcript ctx) off n

/-- split a byte string into `k`-byte chunks -/
def chunks (k : Nat) : Nat → Bytes → List Bytes
  | 0, _ => []
  | n + 1, bs => bs.take k :: chunks k n (bs.drop k)

/-- `sample.Scalar(reader, group)`: 32 bytes big-endian, reduced -/
def scalarOfBytes (bs : Bytes) : Nat := unbe bs % q

/-- `ctxHash.WriteAny(U[i])` for all columns: `[]byte` items of `nbits/8` bytes -/
def uItems (U : List Nat) (nbits : Nat) : List Item :=
  U.map fun u => ⟨str "[]byte", leBytes (nbits / 8) u⟩

/-- the hash-derived functions for the context `ctx` (the items written into `ctxHash` after
    `hash.New()`); `uBits` is the number of rows of the correlated OT of this context (needed to
    lay out the columns `U` as bytes for `mchi`). -/
def concreteHash (ctx : List Item) (uBits : Nat) : OTHash Nat :=
  let prgKey := ctxDigest (forkNilBytes ctx "CorreOT PRG Key") 0 32
  { prg := fun k nbits => leNat (Blake3.keyedXof prgKey (blk k) (nbits / 8))
    chis := fun U n =>
      (chunks otBytes n (ctxDigest (ctx ++ uItems U n) 0 (otBytes * n))).map leNat
    pad := fun i row => leNat (Blake3.hashXof (be32 i ++ blk row) otBytes)
    sc2 := fun v =>
      let d := Blake3.hashXof (blk v) 64
      (scalarOfBytes (d.take 32), scalarOfBytes (d.drop 32))
    noise := fun n =>
      (chunks 32 n (ctxDigest (forkNilBytes ctx "Multiply Gadget Sampling") 0 (32 * n))).map scalarOfBytes
    mchi := fun U =>
      let d := ctxDigest (forkNilBytes (ctx ++ uItems U uBits) "Multiply Chi Sampling") 0 64
      (scalarOfBytes (d.take 32), scalarOfBytes (d.drop 32)) }

/-- the keyed hash of random-OT instance `i`: the nonce is bytes `32i … 32i+31` of the digest of
    the setup's context hash -/
def setupNonce (ctx : List Item) (i : Nat) : Bytes :=
  ctxDigest (forkNilBytes ctx "CorreOT Random OT Nonces") (32 * i) 32

def rotHash (nonce : Bytes) (x : Bytes) : Nat := leNat (Blake3.keyedXof nonce x otBytes)

end Mps.OT
