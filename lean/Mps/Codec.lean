import Mps.Start
/-
  M7 / C15: the decision logic of the restore paths, over a field-tree abstraction of the encoding
  (field ↦ absent | null | present-but-degenerate | good); the byte syntax of CBOR belongs to the
  third-party decoder and is not modelled. `fixed = false` transcribes the tree as found, `fixed = true`
  the tree with the proposed guards (which of the two applies is read off regenerated guard tables).

  Sources: protocols/cmp/config/marshal.go `Config.UnmarshalBinary`; protocols/frost/keygen/config.go,
  protocols/doerner/keygen/keygen.go, pkg/ecdsa (default struct decoding into the Empty… templates, and
  `UnmarshalCBOR` + `Validate` once present); pkg/protocol/message.go `Message.UnmarshalBinary`;
  pkg/math/polynomial/exponent.go `Exponent.UnmarshalBinary`.
-/
namespace Mps.Codec
open Mps Mps.Start

/-- class of a field of the encoding as the decoder meets it -/
inductive FV where
  | absent   -- key missing
  | null     -- CBOR null
  | bad      -- decodes, but violates the field's rule (zero scalar, identity point, wrong size, even modulus …)
  | good
  deriving DecidableEq, Repr, Inhabited

/-! ### polynomial.Exponent.UnmarshalBinary -/

structure ExpIn where
  len    : Nat            -- length of the data
  count  : Nat            -- the 4-byte big-endian count at its head (meaningful when len ≥ 4)
  coeffs : Option Nat     -- number of coefficients the CBOR part decodes to (none: CBOR error)
  nullCoeff : Bool        -- a coefficient is CBOR null
  isConstant : Bool
  deriving DecidableEq, Repr, Inhabited

/-- (outcome, number of curve points allocated before the CBOR part is looked at).
    `fixed = false` is the decoder as this work found it (no length check, count used unchecked); the length and
    count guards have since landed in the repository (commit 94dd999, bound `count ≤ (len-4)/32`, which implies the
    bound `count ≤ len` used here); the remaining guards of `fixed = true` (announced count = decoded count, no null
    coefficient, no empty non-constant exponent) are proposed in hooks/fix_exponent_unmarshal.diff. -/
def exponentDecode (fixed : Bool) (i : ExpIn) : Out × Nat :=
  if i.len < 4 then (if fixed then .err else .crash, 0) else
  if fixed && i.count > i.len then (.err, 0) else
  let alloc := i.count
  match i.coeffs with
  | none => (.err, alloc)
  | some n =>
    if i.nullCoeff then (if fixed then .err else .crash, alloc) else
    if fixed && n != i.count then (.err, alloc) else
    if fixed && !i.isConstant && i.count == 0 then (.err, alloc) else (.ok, alloc)

/-! ### cmp Config.UnmarshalBinary -/

structure PubTree where
  id    : Bytes
  ecdsa : FV
  elgamal : FV
  n     : FV     -- 2048-bit odd modulus
  s     : FV     -- Pedersen s, t: units mod N, different
  t     : FV
  deriving DecidableEq, Repr, Inhabited

structure CmpTree where
  topNull : Bool            -- the whole item is CBOR null
  id      : Bytes
  thr     : Int
  ecdsa   : FV
  elgamal : FV
  p       : FV              -- safe Blum primes of 1024 bits
  q       : FV
  rid     : FV              -- 32 bytes, not all zero
  chainKey : FV             -- absent is allowed; present means 32 bytes, not all zero
  pub     : List PubTree
  deriving DecidableEq, Repr, Inhabited

/-- an interface field pre-allocated in the template: null makes the decoder panic (recovered once guarded) -/
def ifaceField (fixed : Bool) (v : FV) (k : Out) : Out :=
  match v with
  | .null => if fixed then .err else .crash
  | .bad => .err
  | .absent => .err            -- stays the zero scalar / identity point of the template: refused by the zero check
  | .good => k

/-- a pointer field checked by a nil-safe validator -/
def ptrField (v : FV) (k : Out) : Out := if v == .good then k else .err

def pubLoop (fixed : Bool) (self : Bytes) (seen : List Bytes) : List PubTree → Out
  | [] => .ok
  | e :: rest =>
    -- the record is decoded first: null points panic inside the decoder
    if e.ecdsa == .null || e.elgamal == .null then (if fixed then .err else .crash) else
    -- a point has no degenerate encoding (the identity cannot be marshalled): `bad` bytes fail to decode, also in the own record
    if e.ecdsa == .bad || e.elgamal == .bad then .err else
    if fixed && e.id == [] then .err else
    if seen.contains e.id then .err else
    if e.id == self then
      -- own record: public keys are recomputed from the secrets; S, T used to be taken as they come
      (if fixed && !(e.s == .good && e.t == .good) then .err else pubLoop fixed self (e.id :: seen) rest)
    else
      ptrField e.n <| (if e.s == .good && e.t == .good then
        (if e.ecdsa == .good && e.elgamal == .good then pubLoop fixed self (e.id :: seen) rest else .err) else .err)

def cmpRestore (fixed : Bool) (t : CmpTree) : Out :=
  if t.topNull then (if fixed then .err else .crash) else     -- `cbor.Unmarshal(data, &cm)` leaves cm nil; cm.ECDSA is then dereferenced
  ifaceField fixed t.ecdsa <| ifaceField fixed t.elgamal <|
  (if fixed && t.id == [] then .err else
   if fixed && t.rid != .good then .err else
   -- a chain key is a byte string decoded into a slice: CBOR null gives the empty slice, i.e. no chain key
   if fixed && !(t.chainKey == .good || t.chainKey == .absent || t.chainKey == .null) then .err else
   ptrField t.p <| ptrField t.q <|
   andThen (pubLoop fixed t.id [] t.pub) <|
     if !validThreshold t.thr t.pub.length then .err else
     if !(t.pub.map (·.id)).contains t.id then .err else .ok)

/-- the validity rules of a restored CMP config, on the tree -/
def CmpWellFormed (t : CmpTree) : Prop :=
  t.topNull = false ∧ t.id ≠ [] ∧ t.ecdsa = .good ∧ t.elgamal = .good ∧ t.p = .good ∧ t.q = .good ∧ t.rid = .good ∧
    (t.chainKey = .good ∨ t.chainKey = .absent ∨ t.chainKey = .null) ∧
    (∀ e ∈ t.pub, e.id ≠ [] ∧ e.s = .good ∧ e.t = .good ∧ (e.id ≠ t.id → e.n = .good ∧ e.ecdsa = .good ∧ e.elgamal = .good)) ∧
    (t.pub.map (·.id)).Nodup ∧ t.id ∈ t.pub.map (·.id) ∧ 0 ≤ t.thr ∧ t.thr < t.pub.length

/-! ### types restored by the default struct decoding (frost / doerner configs, PreSignature, Signature) -/

structure PlainIn where
  topNull    : Bool          -- the whole item is CBOR null (decodes "successfully" into nothing)
  ifaceNull  : Bool          -- some pre-allocated point / scalar field is CBOR null
  rulesHold  : Bool          -- the restored object satisfies the validity rules of its type
  deriving DecidableEq, Repr, Inhabited

/-- (outcome, the restored object is the untouched template) -/
def plainRestore (fixed : Bool) (i : PlainIn) : Out × Bool :=
  if fixed then
    (if i.topNull || i.ifaceNull || !i.rulesHold then (.err, false) else (.ok, false))
  else
    (if i.topNull then (.ok, true) else if i.ifaceNull then (.crash, false) else (.ok, false))

/-! ### protocol.Message.UnmarshalBinary -/

/-- (outcome, message left as it was) given whether the CBOR decodes and whether it is null -/
def messageRestore (fixed : Bool) (decodes : Bool) (isNull : Bool) : Out × Bool :=
  if !decodes then (if fixed then (.err, false) else (.ok, true))
  else if isNull then (if fixed then (.err, false) else (.ok, true))
  else (.ok, false)

/-! ### the judgement on a described restored object (driver side) -/

def descOk (rules : List Bool) (thr : Int) (ids : List Bytes) (self : Bytes) : Bool :=
  rules.all id && idsValid ids && ids.contains self && ids.all (· != []) && 0 ≤ thr && thr < (ids.length : Int)

end Mps.Codec
