import Mps.Typed
/-
  M1: digests and commitments of `pkg/hash` over an ABSTRACT hash function `H` (the theorems hold
  for any `H`; the driver instantiates it with BLAKE3-XOF truncated to 64 bytes).
-/
namespace Mps

def digestWith (H : Bytes → Bytes) (items : List Item) : Bytes := H (transcript items)

def allZero (b : Bytes) : Bool := b.all (· == 0)

/-- `Commitment.Validate` (n = 64) / `Decommitment.Validate` (n = 32) / `RID.Validate` -/
def validLen (b : Bytes) (n : Nat) : Bool := b.length == n && !allZero b

/-- every value must be accepted by `WriteAny`, otherwise `Commit`/`Decommit` give up -/
def encodeList : List TVal → Option (List Item)
  | [] => some []
  | v :: vs =>
    match encode v, encodeList vs with
    | some i, some is => some (i :: is)
    | _, _ => none

def decomItem (d : Bytes) : Item := ⟨str "Decommitment", d⟩

/-- `hash.Commit` on a state holding `ctx`, with the 32 random bytes `nonce` -/
def commitWith (H : Bytes → Bytes) (ctx : List Item) (vals : List TVal) (nonce : Bytes) : Option (Bytes × Bytes) :=
  match encodeList vals with
  | none => none
  | some is => some (digestWith H (ctx ++ is ++ [decomItem nonce]), nonce)

/-- `hash.Decommit` on a state holding `ctx` -/
def decommitWith (H : Bytes → Bytes) (ctx : List Item) (c d : Bytes) (vals : List TVal) : Bool :=
  if !validLen c 64 then false
  else if !validLen d 32 then false
  else match encodeList vals with
    | none => false
    | some is => digestWith H (ctx ++ is ++ [decomItem d]) == c

end Mps
