import Mps.Bytes
/-
  M1: transcript framing of `pkg/hash/hash.go`.

  `Hash.WriteAny` turns every value into a pair (domain, data) and writes
      "(" ++ be64 |domain| ++ domain ++ be64 |data| ++ data ++ ")"
  `hash.New` first writes the literal "CMP-BLAKE". The digest is BLAKE3-XOF over the
  resulting byte stream (`Mps.Blake3`).
-/
namespace Mps

structure Item where
  dom  : Bytes
  data : Bytes
  deriving DecidableEq, Repr, Inhabited

def lparen : UInt8 := 40
def rparen : UInt8 := 41

def frame (i : Item) : Bytes :=
  lparen :: (be64 i.dom.length ++ i.dom ++ (be64 i.data.length ++ i.data ++ [rparen]))

def frames : List Item → Bytes
  | [] => []
  | i :: is => frame i ++ frames is

def hashPrefix : Bytes := str "CMP-BLAKE"

/-- the byte stream fed to BLAKE3 by `hash.New()` followed by `WriteAny` of the items -/
def transcript (items : List Item) : Bytes := hashPrefix ++ frames items

/-- parser inverting `frame` on a prefix of a stream: returns the item and the rest -/
def unframe (bs : Bytes) : Option (Item × Bytes) :=
  match bs with
  | [] => none
  | c :: r =>
    if c ≠ lparen then none else
    let dl := unbe (r.take 8)
    let r1 := r.drop 8
    let dom := r1.take dl
    let r2 := r1.drop dl
    let tl := unbe (r2.take 8)
    let r3 := r2.drop 8
    let data := r3.take tl
    let r4 := r3.drop tl
    match r4 with
    | [] => none
    | c' :: rest => if c' ≠ rparen then none else some (⟨dom, data⟩, rest)

/-- lengths representable in the 8-byte length fields (true of every real input) -/
def Item.WF (i : Item) : Prop := i.dom.length < 2^64 ∧ i.data.length < 2^64

end Mps
