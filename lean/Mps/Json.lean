import Lean.Data.Json
import Mps.Bytes
/- JSON helpers for the line protocol (driver side). -/
namespace Mps
open Lean

def jget (j : Json) (k : String) : Json := (j.getObjVal? k).toOption.getD Json.null
def jstr (j : Json) (k : String) : String := ((jget j k).getStr?).toOption.getD ""
def jnat (j : Json) (k : String) : Nat := ((jget j k).getNat?).toOption.getD 0
def jint (j : Json) (k : String) : Int := ((jget j k).getInt?).toOption.getD 0
def jbool (j : Json) (k : String) : Bool := ((jget j k).getBool?).toOption.getD false
def jarr (j : Json) (k : String) : List Json :=
  match (jget j k).getArr? with | .ok a => a.toList | .error _ => []
def jisNull (j : Json) (k : String) : Bool := (jget j k).isNull
def jhex (j : Json) (k : String) : Bytes := (ofHex (jstr j k)).getD []
def jhexOpt (j : Json) (k : String) : Option Bytes :=
  if jisNull j k then none else some (jhex j k)
/-- signed hex big number "-1f" / "1f" -/
def parseSHex (s : String) : Bool × Nat :=
  if s.startsWith "-" then (true, (hexToNat (s.drop 1).toString).getD 0) else (false, (hexToNat s).getD 0)
def jbig (j : Json) (k : String) : Nat := (parseSHex (jstr j k)).2
def jsbig (j : Json) (k : String) : Int :=
  let (n, a) := parseSHex (jstr j k); if n then -(a : Int) else a
def shex (i : Int) : String :=
  if i < 0 then "-" ++ String.ofList (Nat.toDigits 16 i.natAbs) else String.ofList (Nat.toDigits 16 i.natAbs)
def nhex (n : Nat) : String := String.ofList (Nat.toDigits 16 n)
def jobj (kvs : List (String × Json)) : Json := Json.mkObj kvs

end Mps
