import Mps.Bytes
/-
  SHA-256, SHA-512 (FIPS 180-4), HMAC-SHA-512 (RFC 2104) and BIP-340 tagged hashes,
  written from the standards as an executable, core-only oracle (no Mathlib, no `partial`).

  Interface: byte strings are `Mps.Bytes = List UInt8`. Internally the padded message is an
  `Array UInt8`, the message schedule an `Array UInt32` / `Array UInt64`, and the working
  variables are machine words.
-/
namespace Mps.Sha2

/-! ## Padding (FIPS 180-4 §5.1) -/

/-- `m ‖ 0x80 ‖ 0…0 ‖ be(lenBytes, 8·|m|)`, zero-padded to a multiple of `blk` bytes.
    `blk = 64, lenBytes = 8` for SHA-256; `blk = 128, lenBytes = 16` for SHA-512. -/
def pad (blk lenBytes : Nat) (m : Bytes) : Array UInt8 :=
  let l := m.length
  let zeros := (blk - (l + 1 + lenBytes) % blk) % blk
  (m ++ [0x80] ++ List.replicate zeros 0 ++ beN lenBytes (8 * l)).toArray

/-! ## SHA-256 (FIPS 180-4 §4.1.2, §4.2.2, §5.3.3, §6.2) -/

def K256 : Array UInt32 := #[
  0x428a2f98, 0x71374491, 0xb5c0fbcf, 0xe9b5dba5, 0x3956c25b, 0x59f111f1, 0x923f82a4, 0xab1c5ed5,
  0xd807aa98, 0x12835b01, 0x243185be, 0x550c7dc3, 0x72be5d74, 0x80deb1fe, 0x9bdc06a7, 0xc19bf174,
  0xe49b69c1, 0xefbe4786, 0x0fc19dc6, 0x240ca1cc, 0x2de92c6f, 0x4a7484aa, 0x5cb0a9dc, 0x76f988da,
  0x983e5152, 0xa831c66d, 0xb00327c8, 0xbf597fc7, 0xc6e00bf3, 0xd5a79147, 0x06ca6351, 0x14292967,
  0x27b70a85, 0x2e1b2138, 0x4d2c6dfc, 0x53380d13, 0x650a7354, 0x766a0abb, 0x81c2c92e, 0x92722c85,
  0xa2bfe8a1, 0xa81a664b, 0xc24b8b70, 0xc76c51a3, 0xd192e819, 0xd6990624, 0xf40e3585, 0x106aa070,
  0x19a4c116, 0x1e376c08, 0x2748774c, 0x34b0bcb5, 0x391c0cb3, 0x4ed8aa4a, 0x5b9cca4f, 0x682e6ff3,
  0x748f82ee, 0x78a5636f, 0x84c87814, 0x8cc70208, 0x90befffa, 0xa4506ceb, 0xbef9a3f7, 0xc67178f2]

def H256 : Array UInt32 := #[
  0x6a09e667, 0xbb67ae85, 0x3c6ef372, 0xa54ff53a, 0x510e527f, 0x9b05688c, 0x1f83d9ab, 0x5be0cd19]

@[inline] def rotr32 (x k : UInt32) : UInt32 := (x >>> k) ||| (x <<< (32 - k))

/-- message schedule `W_0 … W_63` of the 64-byte block starting at byte `off` of `d` -/
def schedule256 (d : Array UInt8) (off : Nat) : Array UInt32 := Id.run do
  let mut w : Array UInt32 := Array.mkEmpty 64
  for t in [0:16] do
    let j := off + 4 * t
    w := w.push ((d[j]!.toUInt32 <<< 24) ||| (d[j+1]!.toUInt32 <<< 16)
                 ||| (d[j+2]!.toUInt32 <<< 8) ||| d[j+3]!.toUInt32)
  for t in [16:64] do
    let x := w[t-15]!
    let y := w[t-2]!
    let s0 := rotr32 x 7 ^^^ rotr32 x 18 ^^^ (x >>> 3)
    let s1 := rotr32 y 17 ^^^ rotr32 y 19 ^^^ (y >>> 10)
    w := w.push (s1 + w[t-7]! + s0 + w[t-16]!)
  return w

/-- one application of the SHA-256 compression function -/
def compress256 (h : Array UInt32) (d : Array UInt8) (off : Nat) : Array UInt32 := Id.run do
  let w := schedule256 d off
  let mut a := h[0]!
  let mut b := h[1]!
  let mut c := h[2]!
  let mut d' := h[3]!
  let mut e := h[4]!
  let mut f := h[5]!
  let mut g := h[6]!
  let mut hh := h[7]!
  for t in [0:64] do
    let S1 := rotr32 e 6 ^^^ rotr32 e 11 ^^^ rotr32 e 25
    let ch := (e &&& f) ^^^ (~~~e &&& g)
    let t1 := hh + S1 + ch + K256[t]! + w[t]!
    let S0 := rotr32 a 2 ^^^ rotr32 a 13 ^^^ rotr32 a 22
    let maj := (a &&& b) ^^^ (a &&& c) ^^^ (b &&& c)
    let t2 := S0 + maj
    hh := g
    g := f
    f := e
    e := d' + t1
    d' := c
    c := b
    b := a
    a := t1 + t2
  return #[h[0]! + a, h[1]! + b, h[2]! + c, h[3]! + d', h[4]! + e, h[5]! + f, h[6]! + g, h[7]! + hh]

/-- SHA-256 (32 bytes) -/
def sha256 (m : Bytes) : Bytes :=
  let d := pad 64 8 m
  let h := (List.range (d.size / 64)).foldl (fun h i => compress256 h d (64 * i)) H256
  h.toList.flatMap fun x => beN 4 x.toNat

/-! ## SHA-512 (FIPS 180-4 §4.1.3, §4.2.3, §5.3.5, §6.4) -/

def K512 : Array UInt64 := #[
  0x428a2f98d728ae22, 0x7137449123ef65cd, 0xb5c0fbcfec4d3b2f, 0xe9b5dba58189dbbc,
  0x3956c25bf348b538, 0x59f111f1b605d019, 0x923f82a4af194f9b, 0xab1c5ed5da6d8118,
  0xd807aa98a3030242, 0x12835b0145706fbe, 0x243185be4ee4b28c, 0x550c7dc3d5ffb4e2,
  0x72be5d74f27b896f, 0x80deb1fe3b1696b1, 0x9bdc06a725c71235, 0xc19bf174cf692694,
  0xe49b69c19ef14ad2, 0xefbe4786384f25e3, 0x0fc19dc68b8cd5b5, 0x240ca1cc77ac9c65,
  0x2de92c6f592b0275, 0x4a7484aa6ea6e483, 0x5cb0a9dcbd41fbd4, 0x76f988da831153b5,
  0x983e5152ee66dfab, 0xa831c66d2db43210, 0xb00327c898fb213f, 0xbf597fc7beef0ee4,
  0xc6e00bf33da88fc2, 0xd5a79147930aa725, 0x06ca6351e003826f, 0x142929670a0e6e70,
  0x27b70a8546d22ffc, 0x2e1b21385c26c926, 0x4d2c6dfc5ac42aed, 0x53380d139d95b3df,
  0x650a73548baf63de, 0x766a0abb3c77b2a8, 0x81c2c92e47edaee6, 0x92722c851482353b,
  0xa2bfe8a14cf10364, 0xa81a664bbc423001, 0xc24b8b70d0f89791, 0xc76c51a30654be30,
  0xd192e819d6ef5218, 0xd69906245565a910, 0xf40e35855771202a, 0x106aa07032bbd1b8,
  0x19a4c116b8d2d0c8, 0x1e376c085141ab53, 0x2748774cdf8eeb99, 0x34b0bcb5e19b48a8,
  0x391c0cb3c5c95a63, 0x4ed8aa4ae3418acb, 0x5b9cca4f7763e373, 0x682e6ff3d6b2b8a3,
  0x748f82ee5defb2fc, 0x78a5636f43172f60, 0x84c87814a1f0ab72, 0x8cc702081a6439ec,
  0x90befffa23631e28, 0xa4506cebde82bde9, 0xbef9a3f7b2c67915, 0xc67178f2e372532b,
  0xca273eceea26619c, 0xd186b8c721c0c207, 0xeada7dd6cde0eb1e, 0xf57d4f7fee6ed178,
  0x06f067aa72176fba, 0x0a637dc5a2c898a6, 0x113f9804bef90dae, 0x1b710b35131c471b,
  0x28db77f523047d84, 0x32caab7b40c72493, 0x3c9ebe0a15c9bebc, 0x431d67c49c100d4c,
  0x4cc5d4becb3e42b6, 0x597f299cfc657e2a, 0x5fcb6fab3ad6faec, 0x6c44198c4a475817]

def H512 : Array UInt64 := #[
  0x6a09e667f3bcc908, 0xbb67ae8584caa73b, 0x3c6ef372fe94f82b, 0xa54ff53a5f1d36f1,
  0x510e527fade682d1, 0x9b05688c2b3e6c1f, 0x1f83d9abfb41bd6b, 0x5be0cd19137e2179]

@[inline] def rotr64 (x k : UInt64) : UInt64 := (x >>> k) ||| (x <<< (64 - k))

/-- message schedule `W_0 … W_79` of the 128-byte block starting at byte `off` of `d` -/
def schedule512 (d : Array UInt8) (off : Nat) : Array UInt64 := Id.run do
  let mut w : Array UInt64 := Array.mkEmpty 80
  for t in [0:16] do
    let j := off + 8 * t
    w := w.push ((d[j]!.toUInt64 <<< 56) ||| (d[j+1]!.toUInt64 <<< 48)
                 ||| (d[j+2]!.toUInt64 <<< 40) ||| (d[j+3]!.toUInt64 <<< 32)
                 ||| (d[j+4]!.toUInt64 <<< 24) ||| (d[j+5]!.toUInt64 <<< 16)
                 ||| (d[j+6]!.toUInt64 <<< 8) ||| d[j+7]!.toUInt64)
  for t in [16:80] do
    let x := w[t-15]!
    let y := w[t-2]!
    let s0 := rotr64 x 1 ^^^ rotr64 x 8 ^^^ (x >>> 7)
    let s1 := rotr64 y 19 ^^^ rotr64 y 61 ^^^ (y >>> 6)
    w := w.push (s1 + w[t-7]! + s0 + w[t-16]!)
  return w

/-- one application of the SHA-512 compression function -/
def compress512 (h : Array UInt64) (d : Array UInt8) (off : Nat) : Array UInt64 := Id.run do
  let w := schedule512 d off
  let mut a := h[0]!
  let mut b := h[1]!
  let mut c := h[2]!
  let mut d' := h[3]!
  let mut e := h[4]!
  let mut f := h[5]!
  let mut g := h[6]!
  let mut hh := h[7]!
  for t in [0:80] do
    let S1 := rotr64 e 14 ^^^ rotr64 e 18 ^^^ rotr64 e 41
    let ch := (e &&& f) ^^^ (~~~e &&& g)
    let t1 := hh + S1 + ch + K512[t]! + w[t]!
    let S0 := rotr64 a 28 ^^^ rotr64 a 34 ^^^ rotr64 a 39
    let maj := (a &&& b) ^^^ (a &&& c) ^^^ (b &&& c)
    let t2 := S0 + maj
    hh := g
    g := f
    f := e
    e := d' + t1
    d' := c
    c := b
    b := a
    a := t1 + t2
  return #[h[0]! + a, h[1]! + b, h[2]! + c, h[3]! + d', h[4]! + e, h[5]! + f, h[6]! + g, h[7]! + hh]

/-- SHA-512 (64 bytes) -/
def sha512 (m : Bytes) : Bytes :=
  let d := pad 128 16 m
  let h := (List.range (d.size / 128)).foldl (fun h i => compress512 h d (128 * i)) H512
  h.toList.flatMap fun x => beN 8 x.toNat

/-! ## HMAC-SHA-512 (RFC 2104; block size B = 128, output L = 64) -/

def hmacSha512 (key msg : Bytes) : Bytes :=
  let k0 := if key.length > 128 then sha512 key else key
  let k := k0 ++ List.replicate (128 - k0.length) 0
  let ipad := k.map (· ^^^ 0x36)
  let opad := k.map (· ^^^ 0x5c)
  sha512 (opad ++ sha512 (ipad ++ msg))

/-! ## BIP-340 tagged hash -/

/-- `SHA256(SHA256(tag) ‖ SHA256(tag) ‖ parts₀ ‖ parts₁ ‖ …)` -/
def taggedHash (tag : String) (parts : List Bytes) : Bytes :=
  let t := sha256 (str tag)
  sha256 (t ++ t ++ parts.flatten)

/-! ## Self test -/

/-- the first `k` primes (trial division; only used to re-derive the round constants) -/
def firstPrimes (k : Nat) : List Nat :=
  let isPrime (n : Nat) : Bool := n ≥ 2 && (List.range (n - 2)).all fun i => n % (i + 2) != 0
  ((List.range 420).filter isPrime).take k

/-- `⌊n^(1/k)⌋` by bisection (`n < 2^400`) -/
def iroot (k n : Nat) : Nat :=
  let step : Nat × Nat → Nat × Nat := fun (lo, hi) =>
    if hi - lo > 1 then
      let mid := (lo + hi) / 2
      if mid ^ k ≤ n then (mid, hi) else (lo, mid)
    else (lo, hi)
  (Nat.repeat step 400 (0, n + 1)).1

/-- The constants above are what FIPS 180-4 says they are: the first 32/64 bits of the
    fractional parts of the cube (resp. square) roots of the first 64/80 (resp. 8) primes. -/
def constantsOk : Bool :=
  K256.toList.map (·.toNat) == (firstPrimes 64).map (fun q => iroot 3 (q * 2^96) % 2^32)
  && H256.toList.map (·.toNat) == (firstPrimes 8).map (fun q => iroot 2 (q * 2^64) % 2^32)
  && K512.toList.map (·.toNat) == (firstPrimes 80).map (fun q => iroot 3 (q * 2^192) % 2^64)
  && H512.toList.map (·.toNat) == (firstPrimes 8).map (fun q => iroot 2 (q * 2^128) % 2^64)

def selfTest : Bool :=
  constantsOk
  -- FIPS 180-4 / NIST CSRC example vectors
  && toHex (sha256 (str "abc"))
      == "ba7816bf8f01cfea414140de5dae2223b00361a396177a9cb410ff61f20015ad"
  && toHex (sha256 [])
      == "e3b0c44298fc1c149afbf4c8996fb92427ae41e4649b934ca495991b7852b855"
  && toHex (sha256 (str "abcdbcdecdefdefgefghfghighijhijkijkljklmklmnlmnomnopnopq"))
      == "248d6a61d20638b8e5c026930c3e6039a33ce45964ff2167f6ecedd419db06c1"
  && toHex (sha512 (str "abc"))
      == "ddaf35a193617abacc417349ae20413112e6fa4e89a97ea20a9eeee64b55d39a"
      ++ "2192992a274fc1a836ba3c23a3feebbd454d4423643ce80e2a9ac94fa54ca49f"
  && toHex (sha512 [])
      == "cf83e1357eefb8bdf1542850d66d8007d620e4050b5715dc83f4a921d36ce9ce"
      ++ "47d0d13c5d85f2b0ff8318d2877eec2f63b931bd47417a81a538327af927da3e"
  && toHex (sha512 (str ("abcdefghbcdefghicdefghijdefghijkefghijklfghijklmghijklmn"
                         ++ "hijklmnoijklmnopjklmnopqklmnopqrlmnopqrsmnopqrstnopqrstu")))
      == "8e959b75dae313da8cf4f72814fc143f8f7779c6eb9f7fa17299aeadb6889018"
      ++ "501d289e4900f7e4331b99dec4b5433ac7d329eeb6dd26545e96e55b874be909"
  -- RFC 4231 test case 1
  && toHex (hmacSha512 (List.replicate 20 0x0b) (str "Hi There"))
      == "87aa7cdea5ef619d4ff0b4241a1d6cb02379f4e2ce4ec2787ad0b30545e17cde"
      ++ "daa833b7d6b8a702038b274eaea3f4e4be9d914eeb61f1702e696c203a126854"
  -- RFC 4231 test case 2
  && toHex (hmacSha512 (str "Jefe") (str "what do ya want for nothing?"))
      == "164b7a7bfcf819e2e395fbe73b56e0a387bd64222e831fd610270cd7ea250554"
      ++ "9758bf75c05a994a6d034f65f8f0e6fdcaeab1a34d4a6b4b636e070a38bce737"
  -- RFC 4231 test case 6 (131-byte key, hashed first)
  && toHex (hmacSha512 (List.replicate 131 0xaa)
              (str "Test Using Larger Than Block-Size Key - Hash Key First"))
      == "80b24263c7c1a3ebb71493c1dd7be8b49b46d1f41b4aeec1121b013783f8f352"
      ++ "6b56d037e05f2598bd0fd2215d6a1e5295e64f73f63f0aec8b915a985d786598"
  -- BIP-340: the tag hash midstate input is sha256(tag) twice
  && taggedHash "BIP0340/challenge" [str "a", str "b"]
      == sha256 (sha256 (str "BIP0340/challenge") ++ sha256 (str "BIP0340/challenge") ++ str "ab")

end Mps.Sha2
