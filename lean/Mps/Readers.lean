/-
  Readers (core-only). Two small models of how the library draws bytes from a caller-supplied io.Reader:

  * `readFull`  — io.ReadFull over a source that hands out its stream in pieces of ANY positive sizes (a Read call may
                  return fewer bytes than asked for: buffered, non-blocking, network-backed sources do). This is how
                  taproot.SecretKey.Sign takes its 32 auxiliary bytes and how sample.* fill their buffers.
  * `readOnce`  — one Read call, byte count ignored (what `rand.Read(a)` instead of io.ReadFull would do).
  * `serve`     — pool.LockedReader: the Read calls of the workers of one Search are serialised, so k calls for n bytes
                  each are handed k consecutive blocks of the stream, whatever the interleaving of the workers.
-/
namespace Mps.Readers

/-- io.ReadFull: call Read until `want` bytes are there; the i-th call delivers at most `chunks[i]` bytes. The schedule
    ending before the buffer is full is the source running dry (io.ErrUnexpectedEOF: fewer bytes are returned). -/
def readFull {α : Type} : List α → Nat → List Nat → List α
  | _, 0, _ => []
  | _, _ + 1, [] => []
  | s, want + 1, c :: cs =>
    let k := min c (want + 1)
    s.take k ++ readFull (s.drop k) (want + 1 - k) cs

/-- one Read call into a zeroed buffer of `want` bytes, the returned count ignored: the rest stays zero -/
def readOnce (s : List UInt8) (want : Nat) : List Nat → List UInt8
  | [] => List.replicate want 0
  | c :: _ => let k := min c want; s.take k ++ List.replicate (want - (s.take k).length) 0

/-- k serialised Read calls for n bytes each -/
def serve {α : Type} (s : List α) (n : Nat) : Nat → List (List α)
  | 0 => []
  | k + 1 => s.take n :: serve (s.drop n) n k

end Mps.Readers
