import Mps.Secp256k1
import Mps.Sha2
/-
  M2 — sharing and signature ALGEBRA of taurusgroup/multi-party-sig, transcribed function by
  function over a plain record of operations `Ops F G` (no type classes, core-only, executable).

  One definition, two instantiations:
    * `secpOps : Ops Nat Secp.Pt`   — scalars mod the group order by `Nat %`, secp256k1 points:
                                      what `mpsdriver` executes against the Go code (suite `alg`);
    * `MpsProofs.Algebra.lawful g`  — any field `F`, any `F`-module `G`, `g : G`: what the theorems
                                      of `MpsProps/C01alg, C02alg, C08alg, C14alg` are stated over.

  Every definition names the Go function it transcribes; the order of the operations is the order
  of the Go statements (accumulators start where the Go accumulators start and are updated left to
  right), so that the differential is bit-exact and the proofs are about the code's own formulas.
-/
namespace Mps.Alg

/-- scalar operations on `F`, group operations on `G`, the action `F → G → G`, the base point -/
structure Ops (F G : Type) where
  zero : F
  one : F
  add : F → F → F
  sub : F → F → F
  mul : F → F → F
  neg : F → F
  inv : F → F
  gzero : G
  gadd : G → G → G
  gneg : G → G
  smul : F → G → G
  base : G

section generic
variable {F G : Type} (O : Ops F G)

/-- `acc := 0; for v in l { acc.Add(v) }` -/
def sumF (l : List F) : F := l.foldl O.add O.zero
/-- `acc := 1; for v in l { acc.Mul(v) }` -/
def prodF (l : List F) : F := l.foldl O.mul O.one
/-- `acc := identity; for P in l { acc = acc.Add(P) }` -/
def sumG (l : List G) : G := l.foldl O.gadd O.gzero
/-- `P.Sub(Q)` -/
def gsub (P Q : G) : G := O.gadd P (O.gneg Q)
/-- `s.ActOnBase()` -/
def actBase (s : F) : G := O.smul s O.base

/-! ## pkg/math/polynomial/lagrange.go -/

/-- the key set of the Go map `scalars` built from the id list (a repeated id is one key) -/
def mapKeys {ι : Type} [BEq ι] : List ι → List ι
  | [] => []
  | a :: l => if l.contains a then mapKeys l else a :: mapKeys l

/-- `getScalarsAndNumerator`: `numerator = 1; for id in interpolationDomain { numerator.Mul(xᵢ) }`
    — over the LIST (every entry, repeated ids included). -/
def lagNumerator {ι : Type} (dom : List ι) (x : ι → F) : F := prodF O (dom.map x)

/-- `lagrange`: `denominator = 1; for i, xI := range interpolationDomain(map)
      { if i == j { denominator.Mul(xJ); continue }; tmp.Set(xJ).Negate().Add(xI); denominator.Mul(tmp) }` -/
def lagDenominator {ι : Type} [BEq ι] (dom : List ι) (x : ι → F) (j : ι) : F :=
  prodF O ((mapKeys dom).map fun i => if i == j then x j else O.add (O.neg (x j)) (x i))

/-- `lagrange`: `lJ := denominator.Invert(); lJ.Mul(numerator)` -/
def lagrangeCoeff {ι : Type} [BEq ι] (dom : List ι) (x : ι → F) (j : ι) : F :=
  O.mul (O.inv (lagDenominator O dom x j)) (lagNumerator O dom x)

/-- `LagrangeFor(group, interpolationDomain, subset...)` (as an association list) -/
def lagrangeFor {ι : Type} [BEq ι] (dom subset : List ι) (x : ι → F) : List (ι × F) :=
  subset.map fun j => (j, lagrangeCoeff O dom x j)

/-- `Lagrange(group, interpolationDomain)` -/
def lagrange {ι : Type} [BEq ι] (dom : List ι) (x : ι → F) : List (ι × F) := lagrangeFor O dom dom x

/-! ## pkg/math/polynomial/polynomial.go, exponent.go -/

/-- `Polynomial.Evaluate` (Horner): `result = 0; for i = len-1 … 0 { result.Mul(index).Add(coefficients[i]) }`.
    (The Go function panics on index 0; that guard is `evalPolyChecked`.) -/
def evalPoly (cs : List F) (x : F) : F := cs.foldr (fun a acc => O.add (O.mul acc x) a) O.zero

/-- `Polynomial.Evaluate` with its guard `if index.IsZero() { panic }` -/
def evalPolyChecked [BEq F] (cs : List F) (x : F) : Option F :=
  if x == O.zero then none else some (evalPoly O cs x)

/-- `polynomial.Exponent`: `IsConstant` says the constant coefficient is the identity and is NOT stored -/
structure Exponent (G : Type) where
  isConstant : Bool
  coeffs : List G
  deriving Repr

/-- `NewPolynomialExponent` -/
def expOfPoly [BEq F] (cs : List F) : Exponent G :=
  match cs with
  | [] => ⟨false, []⟩      -- Go: index out of range; never constructed (NewPolynomial has ≥ 1 coefficient)
  | c0 :: rest =>
    if c0 == O.zero then ⟨true, rest.map (actBase O)⟩ else ⟨false, (c0 :: rest).map (actBase O)⟩

/-- `Exponent.Evaluate`: `result = identity; for i = len-1 … 0 { result = x.Act(result).Add(coefficients[i]) };
     if IsConstant { result = x.Act(result) }` -/
def evalExp (e : Exponent G) (x : F) : G :=
  let r := e.coeffs.foldr (fun a acc => O.gadd (O.smul x acc) a) O.gzero
  if e.isConstant then O.smul x r else r

/-- `Exponent.evaluateClassic` (used by the library's own test): powers of x -/
def evalExpClassic (e : Exponent G) (x : F) : G :=
  let x0 := if e.isConstant then O.mul O.one x else O.one
  (e.coeffs.foldl (fun (st : F × G) a => (O.mul st.1 x, O.gadd st.2 (O.smul st.1 a))) (x0, O.gzero)).2

/-- `Exponent.Degree` (an `int`: −1 for the empty non-constant representation) -/
def expDegree (e : Exponent G) : Int :=
  if e.isConstant then e.coeffs.length else (e.coeffs.length : Int) - 1

/-- `Exponent.Constant`; `p.coefficients[0]` of an empty list panics in Go (`none`) -/
def expConstant? (e : Exponent G) : Option G :=
  if e.isConstant then some O.gzero else e.coeffs.head?

def expConstant (e : Exponent G) : G := (expConstant? O e).getD O.gzero

/-- `Exponent.add`: refuses different lengths / different `IsConstant` -/
def addExp (p q : Exponent G) : Option (Exponent G) :=
  if p.coeffs.length ≠ q.coeffs.length then none
  else if p.isConstant ≠ q.isConstant then none
  else some ⟨p.isConstant, List.zipWith O.gadd p.coeffs q.coeffs⟩

/-- the loop of `polynomial.Sum` after the copy of the first summand -/
def sumExpFrom (acc : Exponent G) : List (Exponent G) → Option (Exponent G)
  | [] => some acc
  | q :: qs => match addExp O acc q with
    | none => none
    | some acc' => sumExpFrom acc' qs

/-- `polynomial.Sum` (`polynomials[0]` of an empty slice panics in Go: `none`) -/
def sumExp : List (Exponent G) → Option (Exponent G)
  | [] => none
  | p :: ps => sumExpFrom O p ps

/-! ## Feldman / VSS check (frost keygen round3.StoreMessage, cmp keygen round4.StoreMessage) -/

/-- `share.ActOnBase().Equal(Fⱼ.Evaluate(self.Scalar()))` -/
def feldmanCheck (share : F) (e : Exponent G) (xi : F) : Prop := actBase O share = evalExp O e xi

instance [DecidableEq G] (share : F) (e : Exponent G) (xi : F) : Decidable (feldmanCheck O share e xi) := by
  unfold feldmanCheck; infer_instance

/-- cmp keygen round3.StoreBroadcastMessage: constant rule and degree rule on a received `Fⱼ`
    (`refresh` = our own secret polynomial has constant 0) -/
def cmpPolyChecks (refresh : Bool) (threshold : Nat) (e : Exponent G) : Bool :=
  (refresh == e.isConstant) && (expDegree e == (threshold : Int))

/-- frost keygen round2.StoreBroadcastMessage: on refresh the constant must be the identity
    (NO degree check exists there — see the report) -/
def frostRefreshConstCheck [BEq G] (e : Exponent G) : Bool := expConstant O e == O.gzero

/-! ## final computations of keygen / refresh -/

/-- own share. cmp keygen round4.Finalize: `s = previous (or 0); for j in PartyIDs { s.Add(ShareReceived[j]) }`;
    frost keygen round3.Finalize: `for l, f_li := range shareFrom { privateShare.Add(f_li) }` -/
def finalShare (prev : F) (received : List F) : F := received.foldl O.add prev

/-- public table entry, cmp keygen round4.Finalize:
    `X = ShamirPublicPolynomial.Evaluate(xⱼ); if previous != nil { X = X.Add(previous[j]) }` -/
def finalPublicCmp (prev : Option G) (sumPoly : Exponent G) (xj : F) : G :=
  match prev with
  | none => evalExp O sumPoly xj
  | some p => O.gadd (evalExp O sumPoly xj) p

/-- public table entry, frost keygen round3.Finalize:
    `verificationShares[k] = v.Add(verificationExponent.Evaluate(xₖ))` (v = identity for a fresh keygen) -/
def finalPublicFrost (prev : G) (sumPoly : Exponent G) (xk : F) : G := O.gadd prev (evalExp O sumPoly xk)

/-- frost keygen round3.Finalize: `for phi in Phi { publicKey = publicKey.Add(phi.Constant()) }` -/
def frostGroupKey (prev : G) (phis : List (Exponent G)) : G :=
  phis.foldl (fun acc e => O.gadd acc (expConstant O e)) prev

/-- interpolation at 0 from the values `v` held by the parties of `l`: `Σ_{j∈l} λⱼ·vⱼ` with the code's
    coefficients (what signing does implicitly: `SecretECDSA = λ·x`, `z = … + λ·s·c`, summed over the signers) -/
def reconstruct {ι : Type} [BEq ι] (l : List ι) (x : ι → F) (v : ι → F) : F :=
  sumF O (l.map fun j => O.mul (lagrangeCoeff O l x j) (v j))

/-- interpolation at 0 "in the exponent": `Σ_{j∈l} λⱼ•Vⱼ` (`StartSign`: `PublicKey = Σ λⱼ.Act(Xⱼ)`) -/
def reconstructG {ι : Type} [BEq ι] (l : List ι) (x : ι → F) (V : ι → G) : G :=
  sumG O (l.map fun j => O.smul (lagrangeCoeff O l x j) (V j))

/-- cmp `Config.PublicPoint`: `sum = identity; l = Lagrange(all ids); for j { sum = sum.Add(l[j].Act(Xⱼ)) }` -/
def cmpPublicPoint {ι : Type} [BEq ι] (ids : List ι) (x : ι → F) (X : ι → G) : G :=
  ids.foldl (fun acc j => O.gadd acc (O.smul (lagrangeCoeff O ids x j) (X j))) O.gzero

/-- the share sent by dealer with coefficients `cs` to the party with scalar `xi`
    (cmp round3: `VSSSecret.Evaluate(j.Scalar())`, frost round2: `f_i.Evaluate(l.Scalar())`) -/
def dealShare (cs : List F) (xi : F) : F := evalPoly O cs xi

/-- party i's share after a keygen/refresh in which the dealers (in this order) used `cs` -/
def dealtShare {ι : Type} (dealers : List ι) (cs : ι → List F) (x : ι → F) (prev : F) (i : ι) : F :=
  finalShare O prev (dealers.map fun j => dealShare O (cs j) (x i))

/-- the public table entry of party i that everybody computes from the broadcast exponent polynomials -/
def dealtPublic {ι : Type} [BEq F] (dealers : List ι) (cs : ι → List F) (x : ι → F) (prev : G) (i : ι) : Option G :=
  (sumExp O (dealers.map fun j => expOfPoly O (cs j))).map fun e => O.gadd (evalExp O e (x i)) prev

/-! ### Doerner (2-party, additive) keygen / refresh: keygen/round2R.go, round2S.go -/

/-- `secretShare.Add(ownRefreshScalar).Sub(peerRefreshScalar)` (both roles; also run on a fresh keygen) -/
def doernerNewShare (share own peer : F) : F := O.sub (O.add share own) peer
/-- `public = publicShare.Add(peerPublicShare)` (fresh keygen only; on refresh `public` is kept) -/
def doernerPublic (mine peer : G) : G := O.gadd mine peer

/-! ## FROST signing: frost/sign/round2.go, round3.go, types.go -/

/-- round2: `RShares[l] = rho[l].Act(E[l]); RShares[l] = RShares[l].Add(D[l])` -/
def frostRShare (D E : G) (rho : F) : G := O.gadd (O.smul rho E) D
/-- round2: `R = identity; for l { R = R.Add(RShares[l]) }` -/
def frostR (rshares : List G) : G := sumG O rshares
/-- round2: `z = λ.Mul(s).Mul(c); z.Add(d); ed = ρ.Mul(e); z.Add(ed)` -/
def frostResponse (d e rho lam s c : F) : F := O.add (O.add (O.mul (O.mul lam s) c) d) (O.mul rho e)
/-- round3.StoreBroadcastMessage: `expected = c.Act(λ.Act(Y_from)).Add(RShares[from]); actual = z.ActOnBase()` -/
def frostShareCheck (z c lam : F) (Yi Ri : G) : Prop := actBase O z = O.gadd (O.smul c (O.smul lam Yi)) Ri
/-- round3.Finalize: `z = 0; for z_l { z.Add(z_l) }` -/
def frostAssemble (zs : List F) : F := sumF O zs
/-- `Signature.Verify`: `expected = c.Act(Y).Add(R); actual = z.ActOnBase(); expected.Equal(actual)` -/
def schnorrVerify (Y R : G) (z c : F) : Prop := O.gadd (O.smul c Y) R = actBase O z

instance [DecidableEq G] (z c lam : F) (Yi Ri : G) : Decidable (frostShareCheck O z c lam Yi Ri) := by
  unfold frostShareCheck; infer_instance
instance [DecidableEq G] (Y R : G) (z c : F) : Decidable (schnorrVerify O Y R z c) := by
  unfold schnorrVerify; infer_instance

/-! ## CMP signing and presigning: cmp/sign/sign.go, round3..5.go; cmp/presign/*; pkg/ecdsa -/

/-- `StartSign`/`StartPresign`: `SecretECDSA = λ[self].Mul(config.ECDSA)` -/
def cmpScaleSecret (lam x : F) : F := O.mul lam x
/-- `ECDSA[j] = λ[j].Act(public.ECDSA)` -/
def cmpScalePublic (lam : F) (X : G) : G := O.smul lam X
/-- `PublicKey = identity; for j { PublicKey = PublicKey.Add(ECDSA[j]) }` -/
def cmpSignPublicKey (scaled : List G) : G := sumG O scaled

/-- sign round3 / presign3: `δ = γ·k; for j≠i { δ += α_ij; δ += β_ij }` (the Go code accumulates in ℤ and
    reduces at the end; reduction is a ring homomorphism, so the model accumulates in `F`). The same
    function with `γ := x` gives `χ`. -/
def cmpMtaShare (a k : F) (alphaBeta : List (F × F)) : F :=
  alphaBeta.foldl (fun acc ab => O.add (O.add acc ab.1) ab.2) (O.mul a k)

/-- `Helper.OtherPartyIDs()`: the signer list without self (same order) -/
def othersOf {ι : Type} [BEq ι] (l : List ι) (i : ι) : List ι := l.filter fun j => !(j == i)

/-- party i's δ (with `a := γ`) or χ (with `a := x`) share in a session of the signers `l`:
    `α i j` is what i decrypted from j's `D`, `β i j` is i's own β of its MtA towards j -/
def cmpShareOf {ι : Type} [BEq ι] (l : List ι) (a k : ι → F) (α β : ι → ι → F) (i : ι) : F :=
  cmpMtaShare O (a i) (k i) ((othersOf l i).map fun j => (α i j, β i j))

/-- `Γ = Σ Γⱼ` -/
def cmpGamma (gs : List G) : G := sumG O gs
/-- `Δᵢ = kᵢ.Act(Γ)` -/
def cmpBigDeltaShare (k : F) (Gamma : G) : G := O.smul k Gamma
/-- round4.Finalize / presign6: `δ.ActOnBase().Equal(Σ Δⱼ)` -/
def cmpDeltaCheck (delta : F) (bigDeltas : List G) : Prop := actBase O delta = sumG O bigDeltas
/-- `R = δ⁻¹.Act(Γ)` -/
def cmpR (delta : F) (Gamma : G) : G := O.smul (O.inv delta) Gamma
/-- sign round4: `km = m.Mul(k); σ = r.Mul(χ).Add(km)` -/
def cmpSigmaShare (r chi m k : F) : F := O.add (O.mul r chi) (O.mul m k)
/-- `PreSignature.SignatureShare`: `mk = m.Mul(k); rx = r.Mul(χ); σ = mk.Add(rx)` -/
def presigSigmaShare (m k r chi : F) : F := O.add (O.mul m k) (O.mul r chi)
/-- `PreSignature.Signature` / sign round5: `s = 0; for σ { s.Add(σ) }` -/
def ecdsaAssemble (sigmas : List F) : F := sumF O sigmas
/-- presign6: `S = χ.Act(R)`, `RBar[j] = δ⁻¹.Act(Δⱼ)` -/
def presignS (chi : F) (R : G) : G := O.smul chi R
def presignRBar (delta : F) (bigDelta : G) : G := O.smul (O.inv delta) bigDelta
/-- presign7.Finalize: `PublicKey.Equal(Σ Sⱼ)` -/
def presignKeyCheck (X : G) (ss : List G) : Prop := X = sumG O ss
/-- `PreSignature.VerifySignatureShares`: `σ.Act(R) = m.Act(R̄ⱼ).Add(r.Act(Sⱼ))` -/
def presigShareCheck (sigma m r : F) (R Rj Sj : G) : Prop := O.smul sigma R = O.gadd (O.smul m Rj) (O.smul r Sj)

instance [DecidableEq G] (sigma m r : F) (R Rj Sj : G) : Decidable (presigShareCheck O sigma m r R Rj Sj) := by
  unfold presigShareCheck; infer_instance
instance [DecidableEq G] (X : G) (ss : List G) : Decidable (presignKeyCheck O X ss) := by
  unfold presignKeyCheck; infer_instance
instance [DecidableEq G] (delta : F) (bs : List G) : Decidable (cmpDeltaCheck O delta bs) := by
  unfold cmpDeltaCheck; infer_instance

/-- the equation of `ecdsa.Signature.Verify` (the two guards `r ≠ 0`, `s ≠ 0` are separate, see `ecdsaVerify`):
    `sInv.Act(m.ActOnBase().Add(r.Act(X))).Equal(R)` -/
def ecdsaEq (X R : G) (m r s : F) : Prop := O.smul (O.inv s) (O.gadd (actBase O m) (O.smul r X)) = R

/-- `ecdsa.Signature.Verify` with `r = R.XScalar()` supplied by the caller -/
def ecdsaVerify [DecidableEq F] [DecidableEq G] (X R : G) (m r s : F) : Bool :=
  if r = O.zero ∨ s = O.zero then false else decide (O.smul (O.inv s) (O.gadd (actBase O m) (O.smul r X)) = R)

/-! ## Doerner signing: doerner/sign/round1R.go, round1S.go, round2R.go
    A = sender ("Alice"), B = receiver ("Bob"); `t*` are the outputs of the three OT multiplications:
    `tA1 + tB1 = α₀·kB⁻¹`, `tA21 + tB21 = α₁·kB⁻¹`, `tA22 + tB22 = α₂·β`. -/

def doeKBInv (kB : F) : F := O.inv kB                          -- round1R: kB.Invert()
def doeD (kB : F) : G := actBase O kB                           -- round1R: D = kB.ActOnBase() (before inversion)
def doeBeta (skB kBInv : F) : F := O.mul skB kBInv              -- round1R: beta = SecretShare.Mul(kB⁻¹)
def doeR (kA : F) (D : G) : G := O.smul kA D                    -- round1S: R = kA.Act(D)
def doeAlpha1 (skA kA : F) : F := O.mul skA (O.inv kA)          -- round1S
def doeAlpha2 (kA : F) : F := O.inv kA
def doeAlpha0 (kA phi : F) : F := O.add (O.inv kA) phi
def doeTA2 (tA21 tA22 : F) : F := O.add tA21 tA22
/-- round1S: `Gamma1 = G.Add(phi.Act(kA.ActOnBase())).Sub(tA1.Act(R))` -/
def doeGamma1A (phi kA tA1 : F) (R : G) : G :=
  gsub O (O.gadd O.base (O.smul phi (actBase O kA))) (O.smul tA1 R)
def doeMuPhi (h1 phi : F) : F := O.add h1 phi                   -- muPhi = HGamma1.Add(phi)
/-- round1S: `sigA = m.Mul(tA1).Add(r.Mul(tA2))` -/
def doeSigA (m tA1 r tA2 : F) : F := O.add (O.mul m tA1) (O.mul r tA2)
/-- round1S: `Gamma2 = tA1.Act(Public).Sub(tA2.ActOnBase())` -/
def doeGamma2A (tA1 tA2 : F) (X : G) : G := gsub O (O.smul tA1 X) (actBase O tA2)
def doeMuSig (h2 sigA : F) : F := O.add h2 sigA                 -- muSig = HGamma2.Add(sigA)
/-- round2R: `Gamma1 = tB1.Act(R)` -/
def doeGamma1B (tB1 : F) (R : G) : G := O.smul tB1 R
def doePhiB (h1 muPhi : F) : F := O.add (O.neg h1) muPhi        -- phi = HGamma1.Negate().Add(MuPhi)
/-- round2R: `theta = phi.Mul(kBInv).Negate().Add(tB1)` -/
def doeTheta (phi kBInv tB1 : F) : F := O.add (O.neg (O.mul phi kBInv)) tB1
/-- round2R: `sigB = m.Mul(theta).Add(r.Mul(tB2))` -/
def doeSigB (m theta r tB2 : F) : F := O.add (O.mul m theta) (O.mul r tB2)
/-- round2R: `Gamma2 = tB2.ActOnBase().Sub(theta.Act(Public))` -/
def doeGamma2B (tB2 theta : F) (X : G) : G := gsub O (actBase O tB2) (O.smul theta X)
/-- round2R: `sigAB = sigB.Add(MuSig).Sub(HGamma2)` -/
def doeSigAB (sigB muSig h2 : F) : F := O.sub (O.add sigB muSig) h2

/-! ## BIP-340 parity renormalisation: frost/keygen/round3.go (`if !YSecp.HasEvenY() { privateShare.Negate();
    verificationShares[i] = y_i.Negate() }`) and frost/sign/round2.go (`if !RSecp.HasEvenY() { d_i.Negate();
    e_i.Negate(); RShares[l] = RShares[l].Negate() }`). `even` is the value of `HasEvenY()` on the raw point. -/

/-- the conditional `s.Negate()` on a scalar -/
def tapScalar (even : Bool) (s : F) : F := if even then s else O.neg s
/-- the conditional `P.Negate()` on a point -/
def tapPoint (even : Bool) (P : G) : G := if even then P else O.gneg P

/-! ## Derivation: cmp/config Derive, frost/keygen Config.Derive, doerner/keygen Derive -/

/-- `share.Set(old).Add(adjust)` -/
def deriveShare (s a : F) : F := O.add s a
/-- `P.Add(adjust.ActOnBase())` (every public table entry and the group key) -/
def derivePublic (P : G) (a : F) : G := O.gadd P (actBase O a)
/-- `TaprootConfig.Derive` (frost/keygen/config.go): the share gets the tweak; it is negated when the NEW key
    `LiftX(PublicKey).Add(adjustG)` has odd y (`even` is the value of its `HasEvenY()`) -/
def tapDeriveShare (even : Bool) (s a : F) : F := tapScalar O even (deriveShare O s a)
/-- the same for every verification share (and, up to the x-only export, for the key itself) -/
def tapDerivePublic (even : Bool) (P : G) (a : F) : G := tapPoint O even (derivePublic O P a)
/-- a derivation path: the tweaks are applied one after the other -/
def deriveSharePath (s : F) (path : List F) : F := path.foldl (deriveShare O) s
def derivePublicPath (P : G) (path : List F) : G := path.foldl (derivePublic O) P

/-- the state of one side of a doerner key: additive share, public key, chain key (`none` = absent) -/
structure DoernerCfg (F G : Type) where
  secretShare : F
  pub : G
  chainKey : Option (List UInt8)

/-- doerner `ConfigReceiver.Derive` (as of commit 4df2a70): the RECEIVER adds the tweak,
    `SecretShare.Add(adjust)`, `Public.Add(adjust·G)`, `ChainKey: newChainKey`.
    (`newChainKey` is the value after the preamble `deriveChainRule`.) -/
def doernerDeriveReceiver (c : DoernerCfg F G) (a : F) (newChainKey : List UInt8) : DoernerCfg F G :=
  { secretShare := O.add c.secretShare a, pub := O.gadd c.pub (actBase O a), chainKey := some newChainKey }

/-- doerner `ConfigSender.Derive` (as of commit 4df2a70): the SENDER keeps its share
    (`NewScalar().Set(c.SecretShare)`), `Public.Add(adjust·G)`, `ChainKey: newChainKey`. -/
def doernerDeriveSender (c : DoernerCfg F G) (a : F) (newChainKey : List UInt8) : DoernerCfg F G :=
  { secretShare := c.secretShare, pub := O.gadd c.pub (actBase O a), chainKey := some newChainKey }

/-- a derivation path applied to both halves of one key: each step is (tweak, chain key of the step) -/
def doernerDerivePath (cR cS : DoernerCfg F G) (path : List (F × List UInt8)) : DoernerCfg F G × DoernerCfg F G :=
  path.foldl (fun st step => (doernerDeriveReceiver O st.1 step.1 step.2, doernerDeriveSender O st.2 step.1 step.2)) (cR, cS)

/-- OLD behaviour (before 4df2a70), kept for the witness lemmas: what `ConfigReceiver.Derive` AND
    `ConfigSender.Derive` BOTH did: `SecretShare.Add(adjust)`, `Public.Add(adjust·G)`; the chain key was
    not copied into the result (`none`). -/
def doernerDeriveOld (c : DoernerCfg F G) (a : F) (_newChainKey : List UInt8) : DoernerCfg F G :=
  { secretShare := O.add c.secretShare a, pub := O.gadd c.pub (actBase O a), chainKey := none }

end generic

/-! ## The concrete instance executed by `mpsdriver` -/

open Mps.Secp in
/-- scalars are canonical residues `< n`; every operation reduces its result -/
def secpOps : Ops Nat Secp.Pt where
  zero := 0
  one := 1
  add a b := (a + b) % n
  sub a b := (a + (n - b % n)) % n
  mul a b := (a * b) % n
  neg a := (n - a % n) % n
  inv a := modInv a n            -- 0 ↦ 0, as `big.Int.ModInverse` leaves its receiver when there is no inverse
  gzero := .inf
  gadd := Secp.add
  gneg := Secp.neg
  smul k P := Secp.mul (k % n) P
  base := Secp.G

/-- `party.ID.Scalar`: `SetNat(new(saferith.Nat).SetBytes([]byte(id)))` = big-endian value of the id bytes mod n -/
def idScalar (id : Bytes) : Nat := unbe id % Secp.n

/-- `curve.FromHash` for secp256k1 (orderBits = 256, orderBytes = 32): the leftmost ≤ 32 bytes, as a
    big-endian number, reduced mod n (`excess = len·8 − 256 ≤ 0` after truncation: never shifted) -/
def fromHash (h : Bytes) : Nat := unbe (h.take 32) % Secp.n

/-- `Point.XScalar` for secp256k1: x coordinate mod n (identity ↦ 0) -/
def xScalar : Secp.Pt → Nat
  | .inf => 0
  | .aff x _ => x % Secp.n

/-! ## chain keys -/

/-- `RID.XOR`: `for b < 32 { rid[b] ^= other[b] }` (both validated to be 32 bytes long) -/
def ridXor (a b : Bytes) : Bytes := List.zipWith (fun x y => x ^^^ y) a b

/-- keygen (cmp round3 / frost round3 `Finalize`): `ChainKey := EmptyRID(); for j in PartyIDs { ChainKey.XOR(ChainKeys[j]) }` -/
def chainKeyOf (contribs : List Bytes) : Bytes := contribs.foldl ridXor (List.replicate 32 0)

/-- the chain key a FROST keygen result carries: since commit eba3819 the XOR of the contributions … -/
def frostResultChainKey (contribs : List Bytes) : Option Bytes := some (chainKeyOf contribs)
/-- … OLD behaviour (before eba3819): computed into a local variable and left out of the Config literal -/
def frostResultChainKeyOld (_contribs : List Bytes) : Option Bytes := none

/-- preamble of every `Derive(adjust, newChainKey)` (cmp, frost, doerner):
    `if len(newChainKey) <= 0 { newChainKey = c.ChainKey }; if len(newChainKey) != 32 { error }`
    (`none` arguments are nil slices; result `none` = the error) -/
def deriveChainRule (old new : Option Bytes) : Option Bytes :=
  let nc := match new with
    | some b => if b.length = 0 then old.getD [] else b
    | none => old.getD []
  if nc.length ≠ 32 then none else some nc

/-- `Secp256k1Point.MarshalBinary`: `out[0] = Y.IsOddBit() + 2; out[1:] = X` after `ToAffine` — the
    identity comes out as 02‖0³² (there is no error path) -/
def goMarshalPoint : Secp.Pt → Bytes
  | .inf => 0x02 :: List.replicate 32 0
  | P => Secp.encode P

/-! ## internal/bip32/bip32.go -/

inductive Bip32Result
  | hardened                                  -- Go: panic("DeriveScalar doesn't work with hardened keys.")
  | badIndex                                  -- Go: error "bad index"
  | ok (scalar : Nat) (chain : Bytes)
  deriving Repr, DecidableEq

/-- `bip32.DeriveScalar(public, chaining, i)`:
    `I = HMAC-SHA512(key = chaining, compressed(public) ‖ be32(i))`; `I_L` must be `< n` (the
    `SetBytes` overflow flag) and `≠ 0`; returns `(I_L, I_R)`. -/
def bip32DeriveScalar (pub : Secp.Pt) (chaining : Bytes) (i : Nat) : Bip32Result :=
  if i / 2^31 ≠ 0 then .hardened else
  let out := Sha2.hmacSha512 chaining (goMarshalPoint pub ++ be32 i)
  let il := unbe (out.take 32)
  if il ≥ Secp.n ∨ il = 0 then .badIndex else .ok il (out.drop 32)

/-- BIP-32 CKDpub written from the standard: `I = HMAC-SHA512(c_par, ser_P(K_par) ‖ ser32(i))`;
    `K_i = parse256(I_L)·G + K_par`; `c_i = I_R`; invalid if `parse256(I_L) ≥ n` or `K_i` is the point
    at infinity; hardened indices are refused. -/
def ckdPub (K : Secp.Pt) (c : Bytes) (i : Nat) : Option (Secp.Pt × Bytes) :=
  if i ≥ 2^31 then none else
  let I := Sha2.hmacSha512 c (Secp.encode K ++ be32 i)
  let il := unbe (I.take 32)
  if il ≥ Secp.n then none else
  let Ki := Secp.add (Secp.mul il Secp.G) K
  if Ki = .inf then none else some (Ki, I.drop 32)

end Mps.Alg
