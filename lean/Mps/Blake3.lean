import Mps.Bytes

/-
  BLAKE3, written directly from the specification (https://github.com/BLAKE3-team/BLAKE3-specs),
  core Lean only. It is the independent oracle for the Go library `github.com/zeebo/blake3`:

    hashXof  input n            = blake3.New();          Write(input);    Digest().Read(n bytes)
    keyedXof key input n        = blake3.NewKeyed(key);  Write(input);    Digest().Read(n bytes)
    deriveKey ctx material n    = blake3.DeriveKey(ctx, material, out)  with len(out) = n
    xofFrom  key? input off n   = the n bytes of the output stream at byte offset `off`
                                  (Digest().Seek(off); Read(n), or the read following `off` bytes)

  Everything is total and computable: array accesses use `getD`/`setIfInBounds`, loops are
  structural recursion on a `Nat` counter.
-/
namespace Mps.Blake3

/-! ## constants -/

def OUT_LEN   : Nat := 32
def KEY_LEN   : Nat := 32
def BLOCK_LEN : Nat := 64
def CHUNK_LEN : Nat := 1024

def CHUNK_START         : UInt32 := 1
def CHUNK_END           : UInt32 := 2
def PARENT              : UInt32 := 4
def ROOT                : UInt32 := 8
def KEYED_HASH          : UInt32 := 16
def DERIVE_KEY_CONTEXT  : UInt32 := 32
def DERIVE_KEY_MATERIAL : UInt32 := 64

def IV : Array UInt32 :=
  #[0x6A09E667, 0xBB67AE85, 0x3C6EF372, 0xA54FF53A,
    0x510E527F, 0x9B05688C, 0x1F83D9AB, 0x5BE0CD19]

def MSG_PERMUTATION : Array Nat :=
  #[2, 6, 3, 10, 7, 0, 4, 13, 1, 11, 12, 5, 9, 14, 15, 8]

/-! ## compression function -/

@[inline] def rotr (x : UInt32) (n : UInt32) : UInt32 :=
  (x >>> n) ||| (x <<< (32 - n))

/-- the quarter-round `G` on state words `a b c d` with message words `mx my` -/
@[inline] def g (s : Array UInt32) (a b c d : Nat) (mx my : UInt32) : Array UInt32 :=
  let va := s.getD a 0
  let vb := s.getD b 0
  let vc := s.getD c 0
  let vd := s.getD d 0
  let va := va + vb + mx
  let vd := rotr (vd ^^^ va) 16
  let vc := vc + vd
  let vb := rotr (vb ^^^ vc) 12
  let va := va + vb + my
  let vd := rotr (vd ^^^ va) 8
  let vc := vc + vd
  let vb := rotr (vb ^^^ vc) 7
  (((s.setIfInBounds a va).setIfInBounds b vb).setIfInBounds c vc).setIfInBounds d vd

def round (s m : Array UInt32) : Array UInt32 :=
  -- columns
  let s := g s 0 4 8  12 (m.getD 0 0)  (m.getD 1 0)
  let s := g s 1 5 9  13 (m.getD 2 0)  (m.getD 3 0)
  let s := g s 2 6 10 14 (m.getD 4 0)  (m.getD 5 0)
  let s := g s 3 7 11 15 (m.getD 6 0)  (m.getD 7 0)
  -- diagonals
  let s := g s 0 5 10 15 (m.getD 8 0)  (m.getD 9 0)
  let s := g s 1 6 11 12 (m.getD 10 0) (m.getD 11 0)
  let s := g s 2 7 8  13 (m.getD 12 0) (m.getD 13 0)
  let s := g s 3 4 9  14 (m.getD 14 0) (m.getD 15 0)
  s

def permute (m : Array UInt32) : Array UInt32 :=
  MSG_PERMUTATION.map fun i => m.getD i 0

/-- `n` rounds, permuting the message between rounds (the permutation after the last round
    is harmless and dropped with the message) -/
def rounds : Nat → Array UInt32 → Array UInt32 → Array UInt32
  | 0,     s, _ => s
  | n + 1, s, m => rounds n (round s m) (permute m)

/-- The compression function: 8-word chaining value, 16-word block, 64-bit counter, block
    length, flags ↦ 16 output words. -/
def compress (cv block : Array UInt32) (counter : Nat) (blockLen flags : UInt32) :
    Array UInt32 :=
  let s : Array UInt32 :=
    #[cv.getD 0 0, cv.getD 1 0, cv.getD 2 0, cv.getD 3 0,
      cv.getD 4 0, cv.getD 5 0, cv.getD 6 0, cv.getD 7 0,
      IV.getD 0 0, IV.getD 1 0, IV.getD 2 0, IV.getD 3 0,
      UInt32.ofNat (counter % 4294967296), UInt32.ofNat (counter / 4294967296 % 4294967296),
      blockLen, flags]
  let s := rounds 7 s block
  #[s.getD 0 0 ^^^ s.getD 8 0,  s.getD 1 0 ^^^ s.getD 9 0,
    s.getD 2 0 ^^^ s.getD 10 0, s.getD 3 0 ^^^ s.getD 11 0,
    s.getD 4 0 ^^^ s.getD 12 0, s.getD 5 0 ^^^ s.getD 13 0,
    s.getD 6 0 ^^^ s.getD 14 0, s.getD 7 0 ^^^ s.getD 15 0,
    s.getD 8 0  ^^^ cv.getD 0 0, s.getD 9 0  ^^^ cv.getD 1 0,
    s.getD 10 0 ^^^ cv.getD 2 0, s.getD 11 0 ^^^ cv.getD 3 0,
    s.getD 12 0 ^^^ cv.getD 4 0, s.getD 13 0 ^^^ cv.getD 5 0,
    s.getD 14 0 ^^^ cv.getD 6 0, s.getD 15 0 ^^^ cv.getD 7 0]

/-! ## words and bytes (little-endian) -/

/-- little-endian word at byte offset `off` of `data`; bytes past the end read as zero
    (this is the zero padding of a short final block) -/
@[inline] def wordAt (data : Array UInt8) (off : Nat) : UInt32 :=
  (data.getD off 0).toUInt32
    ||| ((data.getD (off + 1) 0).toUInt32 <<< 8)
    ||| ((data.getD (off + 2) 0).toUInt32 <<< 16)
    ||| ((data.getD (off + 3) 0).toUInt32 <<< 24)

/-- the 16 message words of the 64-byte block starting at byte `off` -/
def blockWords (data : Array UInt8) (off : Nat) : Array UInt32 :=
  #[wordAt data off,        wordAt data (off + 4),  wordAt data (off + 8),  wordAt data (off + 12),
    wordAt data (off + 16), wordAt data (off + 20), wordAt data (off + 24), wordAt data (off + 28),
    wordAt data (off + 32), wordAt data (off + 36), wordAt data (off + 40), wordAt data (off + 44),
    wordAt data (off + 48), wordAt data (off + 52), wordAt data (off + 56), wordAt data (off + 60)]

def wordBytes (w : UInt32) : Bytes :=
  [w.toUInt8, (w >>> 8).toUInt8, (w >>> 16).toUInt8, (w >>> 24).toUInt8]

def wordsBytes (ws : Array UInt32) : Bytes :=
  ws.foldr (fun w acc => wordBytes w ++ acc) []

/-- 8 key words from (the first 32 bytes of) a key; a short key is zero padded (the Go
    library rejects keys that are not exactly 32 bytes, so only that case is compared) -/
def keyWords (key : Bytes) : Array UInt32 :=
  (blockWords key.toArray 0).extract 0 8

/-! ## outputs, chunks, parents -/

/-- A pending compression whose result is either a chaining value (interior node) or, with
    the `ROOT` flag and an output-block counter, 64 bytes of output. -/
structure Output where
  inputCV  : Array UInt32
  block    : Array UInt32
  counter  : Nat
  blockLen : UInt32
  flags    : UInt32

def Output.chainingValue (o : Output) : Array UInt32 :=
  (compress o.inputCV o.block o.counter o.blockLen o.flags).extract 0 8

/-- output block number `t` (64 bytes) of the root node -/
def Output.rootBlock (o : Output) (t : Nat) : Bytes :=
  wordsBytes (compress o.inputCV o.block t o.blockLen (o.flags ||| ROOT))

/-- Compress the `n` full, non-final blocks of a chunk starting at byte `off`;
    `first` says whether the next block is the first of its chunk. -/
def chunkBlocks (data : Array UInt8) (chunkCounter : Nat) (flags : UInt32) :
    Nat → Nat → Bool → Array UInt32 → Array UInt32
  | 0,     _,   _,     cv => cv
  | n + 1, off, first, cv =>
    let fl := if first then flags ||| CHUNK_START else flags
    let cv := (compress cv (blockWords data off) chunkCounter 64 fl).extract 0 8
    chunkBlocks data chunkCounter flags n (off + 64) false cv

/-- The chunk made of the `len ≤ 1024` bytes of `data` at `start` (the caller guarantees that
    `start + len ≤ data.size`, and that `len < 1024` only for the last chunk, so that reading
    past the chunk reads past `data` and yields the zero padding). -/
def chunkOutput (key : Array UInt32) (flags : UInt32) (data : Array UInt8)
    (start len chunkCounter : Nat) : Output :=
  let nblocks := if len = 0 then 1 else (len + 63) / 64
  let cv := chunkBlocks data chunkCounter flags (nblocks - 1) start true key
  let lastOff := start + 64 * (nblocks - 1)
  let startFlag := if nblocks = 1 then CHUNK_START else 0
  { inputCV  := cv
    block    := blockWords data lastOff
    counter  := chunkCounter
    blockLen := UInt32.ofNat (len - 64 * (nblocks - 1))
    flags    := flags ||| startFlag ||| CHUNK_END }

def parentOutput (left right key : Array UInt32) (flags : UInt32) : Output :=
  { inputCV := key, block := left ++ right, counter := 0, blockLen := 64,
    flags := flags ||| PARENT }

def parentCV (left right key : Array UInt32) (flags : UInt32) : Array UInt32 :=
  (parentOutput left right key flags).chainingValue

/-- Add the chaining value of a finished chunk to the stack of subtree roots, `total` being the
    number of chunks finished so far (this one included): one merge per trailing zero bit of
    `total`. The stack is a list with its top first. -/
def pushCV (key : Array UInt32) (flags : UInt32) (stack : List (Array UInt32))
    (cv : Array UInt32) (total : Nat) : List (Array UInt32) :=
  if _h : total % 2 = 0 ∧ 0 < total then
    match stack with
    | top :: rest => pushCV key flags rest (parentCV top cv key flags) (total / 2)
    | [] => [cv]
  else cv :: stack
termination_by total
decreasing_by omega

/-- Process the `n` full chunks `i, i+1, …, i+n-1` (none of them the last chunk of the input). -/
def fullChunks (key : Array UInt32) (flags : UInt32) (data : Array UInt8) :
    Nat → Nat → List (Array UInt32) → List (Array UInt32)
  | 0,     _, stack => stack
  | n + 1, i, stack =>
    let cv := (chunkOutput key flags data (1024 * i) 1024 i).chainingValue
    fullChunks key flags data n (i + 1) (pushCV key flags stack cv (i + 1))

/-- Merge the last chunk's output with the stack, top first, up to the root. -/
def finalize (key : Array UInt32) (flags : UInt32) (o : Output) : List (Array UInt32) → Output
  | [] => o
  | top :: rest => finalize key flags (parentOutput top o.chainingValue key flags) rest

/-- The root node of the hash of `data` under key words `key` and mode flags `flags`. -/
def rootOutput (key : Array UInt32) (flags : UInt32) (data : Array UInt8) : Output :=
  -- number of chunks before the last one; the last chunk is empty only for empty input
  let nfull := (data.size - 1) / 1024
  let stack := fullChunks key flags data nfull 0 []
  let last := chunkOutput key flags data (1024 * nfull) (data.size - 1024 * nfull) nfull
  finalize key flags last stack

/-- output blocks `t, t+1, …, t+n-1` concatenated -/
def outputBlocks (o : Output) : Nat → Nat → Bytes
  | 0,     _ => []
  | n + 1, t => o.rootBlock t ++ outputBlocks o n (t + 1)

/-- `outLen` bytes of the output stream of root `o`, starting at byte `offset` -/
def Output.read (o : Output) (offset outLen : Nat) : Bytes :=
  let first := offset / 64
  let skip := offset % 64
  let nblocks := (skip + outLen + 63) / 64
  ((outputBlocks o nblocks first).drop skip).take outLen

/-! ## API -/

/-- the XOF in the mode given by key words and flags -/
def xofWith (key : Array UInt32) (flags : UInt32) (input : Bytes) (offset outLen : Nat) : Bytes :=
  (rootOutput key flags input.toArray).read offset outLen

/-- `outLen` bytes of the XOF stream starting at byte `offset`; `key = none` is the plain hash,
    `key = some k` the keyed hash with the 32-byte key `k`. -/
def xofFrom (key : Option Bytes) (input : Bytes) (offset outLen : Nat) : Bytes :=
  match key with
  | none   => xofWith IV 0 input offset outLen
  | some k => xofWith (keyWords k) KEYED_HASH input offset outLen

/-- `blake3.New(); Write(input); Digest().Read(outLen bytes)` -/
def hashXof (input : Bytes) (outLen : Nat) : Bytes :=
  xofFrom none input 0 outLen

/-- `blake3.NewKeyed(key); Write(input); Digest().Read(outLen bytes)`; `key` is 32 bytes -/
def keyedXof (key : Bytes) (input : Bytes) (outLen : Nat) : Bytes :=
  xofFrom (some key) input 0 outLen

/-- `outLen` bytes at `offset` of the key-derivation output stream -/
def deriveKeyFrom (context : String) (material : Bytes) (offset outLen : Nat) : Bytes :=
  let contextKey := xofWith IV DERIVE_KEY_CONTEXT (str context) 0 32
  xofWith (keyWords contextKey) DERIVE_KEY_MATERIAL material offset outLen

/-- `blake3.DeriveKey(context, material, out)` with `len(out) = outLen` -/
def deriveKey (context : String) (material : Bytes) (outLen : Nat) : Bytes :=
  deriveKeyFrom context material 0 outLen

/-- the default 32-byte digest, `blake3.Sum256` -/
def hash (input : Bytes) : Bytes := hashXof input 32

/-! ## self test

Known answers produced by `github.com/zeebo/blake3 v0.2.3` (the first two are also the official
BLAKE3 test vectors). `pattern n` is the `n`-byte input whose byte `i` is `i % 251`. -/

def pattern (n : Nat) : Bytes := (List.range n).map fun i => UInt8.ofNat (i % 251)

def selfTestKey : Bytes := str "whats the Elvish word for friend"

def selfTest : Bool :=
  -- empty input, one empty block
  toHex (hashXof [] 32) == "af1349b9f5f9a1a6a0404dea36dcc9499bcb25c9adc112b7cc9a93cae41f3262"
  && toHex (hashXof (str "abc") 32)
      == "6437b3ac38465133ffb63b75273a8db548c558465d79db03fd359c6cd5bd9d85"
  -- 4 chunks (the last of 1 byte), 2 output blocks
  && toHex (hashXof (pattern 3073) 65)
      == "7124b49501012f81cc7f11ca069ec9226cecb8a2c850cfe644e327d22d3e1cd3"
      ++ "9a27ae3b79d68d89da9bf25bc27139ae65a324918a5f9b7828181e52cf373c84f3"
  && toHex (hashXof (pattern 5000) 32)
      == "ee78d92070de3df1c57c37002abf0a6b1a6589acdeef4d8ffac7cf3d9e8f2836"
  -- keyed, 2 chunks
  && toHex (keyedXof selfTestKey (pattern 1025) 32)
      == "357dc55de0c7e382c900fd6e320acc04146be01db6a8ce7210b7189bd664ea69"
  -- key derivation
  && toHex (deriveKey "test context" (str "abc") 32)
      == "14efb5ead17fdaa00c491a04d88801b8d7adb4bbabc2d0886717aaa6005d55a0"
  && toHex (deriveKey "test context" (pattern 2049) 64)
      == "2a7be49b70c11846a1a971f9b0ef8139d52497f91f373af011c86e10c4e2d250"
      ++ "8772ea34fa447209cbca56a3e2b38fafa709632b30613f84643ffeed22f45b1b"
  -- the read of 100 bytes that follows a read of 10 bytes (keyed)
  && toHex (xofFrom (some selfTestKey) (pattern 2049) 10 100)
      == "dc4df1e3049f258b2472b6dd5267f61bf13983b78dd5f9a88abfefdfa1e00b41"
      ++ "8971f2b39c64ca621e8eb37fceac57fd0c8fc8e117d43b81447be22d5d8186f8"
      ++ "f5919ba6bcc6846bd7d50726c06d245672c2ad4f61702c646499ee1173daa061"
      ++ "ffe15bf4"
  -- 70 bytes at offset 2^38 - 5: output block counters 2^32 - 1, 2^32, 2^32 + 1
  && toHex (xofFrom none (str "abc") 274877906939 70)
      == "6a459bbbb227db0cdf9952a2ccff10e83701421d48d249234bbab4d3c3b6a2d5"
      ++ "626dca8db832d6274dee6127d6489aec14953ebb486d23ca00bc994e664b7ee3"
      ++ "6fe34376d9b4"
  -- reads compose
  && xofFrom none (str "abc") 0 10 ++ xofFrom none (str "abc") 10 100 == hashXof (str "abc") 110

end Mps.Blake3
