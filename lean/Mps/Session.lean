import Mps.Commit
/-
  M1/C09: the session tag computed by `round.NewSession` (internal/round/helper.go):
  hash.New(); [Session ID]; Protocol ID; [Group Name]; IDSlice; Threshold; aux…;  SSID = Sum().
-/
namespace Mps

structure SessionParams where
  sid    : Option Bytes      -- nil ⇒ not written
  proto  : Bytes
  group  : Option Bytes      -- curve name; nil group ⇒ not written
  ids    : List Bytes        -- sorted, strictly increasing
  thr    : Nat
  aux    : List Item         -- auxInfo (config, presignature id, message …) already as items
  deriving DecidableEq, Repr, Inhabited

def sessionItems (p : SessionParams) : List Item :=
  (match p.sid with | none => [] | some s => [⟨str "Session ID", s⟩])
  ++ [⟨str "Protocol ID", p.proto⟩]
  ++ (match p.group with | none => [] | some g => [⟨str "Group Name", g⟩])
  ++ [⟨str "IDSlice", idsData p.ids⟩, ⟨str "Threshold", be32 p.thr⟩]
  ++ p.aux

def ssidWith (H : Bytes → Bytes) (p : SessionParams) : Bytes := digestWith H (sessionItems p)

/-- `Helper.HashForID(id)`: the session items followed by the id (not written for the empty id) -/
def hashForIDItems (p : SessionParams) (id : Bytes) : List Item :=
  sessionItems p ++ (if id = [] then [] else [⟨str "ID", id⟩])

/-- strictly increasing byte strings (Go string comparison = lexicographic on bytes) -/
def bytesLt : Bytes → Bytes → Bool
  | [], [] => false
  | [], _ :: _ => true
  | _ :: _, [] => false
  | a :: as, b :: bs => a < b || (a == b && bytesLt as bs)

def idsValid : List Bytes → Bool
  | [] => true
  | [_] => true
  | a :: b :: rest => bytesLt a b && idsValid (b :: rest)

/-- `round.NewSession` parameter validation: `none` = refused -/
def newSessionOk (ids : List Bytes) (self : Bytes) (thr : Int) : Bool :=
  idsValid ids && ids.contains self && 0 ≤ thr && thr ≤ 4294967295 && ids.length > 0 && thr ≤ (ids.length : Int) - 1

end Mps
