/-
  Byte strings of the model: `List UInt8`. Big-endian fixed-width encodings are defined
  by structural recursion so that the injectivity proofs are plain inductions.
-/
namespace Mps

abbrev Bytes := List UInt8

/-- `k`-byte big-endian encoding of `n` (truncating: only `n % 256^k` is represented). -/
def beN : Nat → Nat → Bytes
  | 0,     _ => []
  | k + 1, n => beN k (n / 256) ++ [UInt8.ofNat (n % 256)]

/-- big-endian decoding of a byte string -/
def unbe (bs : Bytes) : Nat := bs.foldl (fun acc b => acc * 256 + b.toNat) 0

def be64 (n : Nat) : Bytes := beN 8 n
def be32 (n : Nat) : Bytes := beN 4 n

/-- minimal big-endian encoding (no leading zero bytes; `0 ↦ []`), as `big.Int.Bytes()` -/
def natBytes (n : Nat) : Bytes :=
  if _h : n = 0 then [] else natBytes (n / 256) ++ [UInt8.ofNat (n % 256)]
decreasing_by omega

/-- UTF-8 bytes of a string (defined through `String.toList` so that the kernel can
    evaluate it on literals: `decide` proves facts about domain tags) -/
def str (s : String) : Bytes := s.toList.flatMap String.utf8EncodeChar

def hexDigit (n : Nat) : Char :=
  if n < 10 then Char.ofNat (48 + n) else Char.ofNat (87 + n)

def toHex (bs : Bytes) : String :=
  String.ofList (bs.flatMap fun b => [hexDigit (b.toNat / 16), hexDigit (b.toNat % 16)])

def hexVal (c : Char) : Option Nat :=
  if '0' ≤ c ∧ c ≤ '9' then some (c.toNat - 48)
  else if 'a' ≤ c ∧ c ≤ 'f' then some (c.toNat - 87)
  else if 'A' ≤ c ∧ c ≤ 'F' then some (c.toNat - 55)
  else none

def ofHexAux : List Char → Bytes → Option Bytes
  | [], acc => some acc.reverse
  | [_], _ => none
  | a :: b :: rest, acc =>
    match hexVal a, hexVal b with
    | some x, some y => ofHexAux rest (UInt8.ofNat (x * 16 + y) :: acc)
    | _, _ => none

def ofHex (s : String) : Option Bytes := ofHexAux s.toList []

def natToHex (n : Nat) : String := toHex (natBytes n)
def hexToNat (s : String) : Option Nat :=
  let s := if s.length % 2 = 1 then "0" ++ s else s
  (ofHex s).map unbe

end Mps
