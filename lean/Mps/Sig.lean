import Mps.Secp256k1
import Mps.Sha2
/-
  M8/C16 — stand-alone signature primitives, written FROM THE STANDARDS (core-only, executable):

    * SEC 1 v2 §4.1.3/§4.1.4 ECDSA (bits2int truncation, textbook (r,s) verification, the same
      equation for the library's (R, s) signature format), §4.1.6 public-key recovery,
      Ethereum's 65-byte r‖s‖v export with EIP-2 low-s;
    * BIP-340 (default signing, verification, public keys), tagged hashes from `Mps.Sha2`,
      `lift_x` from `Mps.Secp`.

  The algebraic cores are written ONCE over a plain record of operations `Ops F G`; they are
  executed with the secp256k1 instance `secp` (this file) and proved about for every lawful
  instance in `MpsProofs/Sig.lean` (Mathlib `Field F`, `Module F G`).

  Next to each specification stands the MODEL of what the Go code does (suffix `Go`), a
  transcription of pkg/ecdsa/signature.go, pkg/taproot/signature.go and the decoders of
  pkg/math/curve/secp256k1.go — including their defects.
-/
namespace Mps.Sig
open Mps Mps.Secp

/-! ## 0. The record of operations -/

structure Ops (F G : Type) where
  fzero : F
  fadd  : F → F → F
  fneg  : F → F
  fmul  : F → F → F
  finv  : F → F
  gzero : G
  gadd  : G → G → G
  gneg  : G → G
  smul  : F → G → G
  gen   : G
  /-- x coordinate of a point read as a scalar (`Point.XScalar`; identity ↦ 0) -/
  xs    : G → F
  /-- `HasEvenY` -/
  evenY : G → Bool

/-- x coordinate as an integer `< p` (identity ↦ 0, as `XBytes` after `ToAffine`) -/
def xcoord : Pt → Nat
  | .inf => 0
  | .aff x _ => x

def hasEvenY : Pt → Bool
  | .inf => true
  | .aff _ y => y % 2 == 0

/-- secp256k1 with scalars as `Nat` in `[0, n)` -/
def secp : Ops Nat Pt where
  fzero := 0
  fadd a b := (a + b) % n
  fneg a := (n - a % n) % n
  fmul a b := a * b % n
  finv a := modInv a n
  gzero := .inf
  gadd := add
  gneg := neg
  smul := mul
  gen := G
  xs P := xcoord P % n
  evenY := hasEvenY

/-! ## 1. ECDSA over `Ops` -/

section generic
variable {F G : Type} [DecidableEq F] [DecidableEq G] (O : Ops F G)

/-- SPEC. The standard verification equation for a signature given as (nonce point R, s):
    r = x(R) mod n, r ≠ 0, s ≠ 0, s⁻¹·(m·G + r·X) = R. -/
def ecdsaVerifySpecO (X : G) (m : F) (R : G) (s : F) : Bool :=
  decide (O.xs R ≠ O.fzero) && decide (s ≠ O.fzero) &&
  decide (O.smul (O.finv s) (O.gadd (O.smul m O.gen) (O.smul (O.xs R) X)) = R)

/-- SPEC. Textbook verification of (r, s) (SEC 1 §4.1.4): u₁ = m·s⁻¹, u₂ = r·s⁻¹,
    P = u₁·G + u₂·X, P ≠ O, x(P) mod n = r. (Range checks on r, s are on the integer level.) -/
def ecdsaVerifyRSO (X : G) (m r s : F) : Bool :=
  let w := O.finv s
  let P := O.gadd (O.smul (O.fmul m w) O.gen) (O.smul (O.fmul r w) X)
  decide (r ≠ O.fzero) && decide (s ≠ O.fzero) && decide (P ≠ O.gzero) && decide (O.xs P = r)

/-- MODEL of `ecdsa.Signature.Verify` (pkg/ecdsa/signature.go), statement by statement. -/
def verifyGoO (X : G) (m : F) (R : G) (s : F) : Bool :=
  let r := O.xs R                                    -- r := sig.R.XScalar()
  if r = O.fzero ∨ s = O.fzero then false else       -- if r.IsZero() || sig.S.IsZero() { return false }
  let sInv := O.finv s                               -- sInv := NewScalar().Set(sig.S).Invert()
  let mG := O.smul m O.gen                           -- mG := m.ActOnBase()
  let rX := O.smul r X                               -- rX := r.Act(X)
  let R2 := O.gadd mG rX                             -- R2 := mG.Add(rX)
  let R2 := O.smul sInv R2                           -- R2 = sInv.Act(R2)
  decide (R2 = R)                                    -- return R2.Equal(sig.R)

/-- SPEC. Signing with secret key x and nonce k: R = k·G, s = k⁻¹(m + r·x). -/
def ecdsaSignO (x k m : F) : G × F :=
  let R := O.smul k O.gen
  (R, O.fmul (O.finv k) (O.fadd m (O.fmul (O.xs R) x)))

/-- low-s normalisation in the (R, s) format: (R, s) ↦ (−R, −s) when s is "high" -/
def ethNormalizeO (high : F → Bool) (R : G) (s : F) : G × F :=
  if high s then (O.gneg R, O.fneg s) else (R, s)

/-- SPEC. Public-key recovery (SEC 1 §4.1.6 step 1.6): Q = r⁻¹·(s·R − m·G). -/
def recoverO (m : F) (R : G) (s : F) : G :=
  O.smul (O.finv (O.xs R)) (O.gadd (O.smul s R) (O.gneg (O.smul m O.gen)))

/-! ## 2. BIP-340 core over `Ops`
  `X` is the type of x-only coordinates, `xc` the coordinate map, `lift` = `lift_x`,
  `chal rx px m` = int(hash_{BIP0340/challenge}(bytes(rx) ‖ bytes(px) ‖ m)) mod n. -/

variable {X M : Type} [DecidableEq X]

/-- SPEC. BIP-340 default signing after the nonce k′ has been derived: negate d′ / k′ when the
    point has odd Y; sig = (x(R), k + e·d). -/
def schnorrSignO (xc : G → X) (chal : X → X → M → F) (d' k' : F) (m : M) : X × F :=
  let P := O.smul d' O.gen
  let d := if O.evenY P then d' else O.fneg d'
  let R := O.smul k' O.gen
  let k := if O.evenY R then k' else O.fneg k'
  let e := chal (xc R) (xc P) m
  (xc R, O.fadd k (O.fmul e d))

/-- SPEC. BIP-340 verification: P = lift_x(pk); R = s·G − e·P; fail if R is infinite, has odd Y
    or x(R) ≠ r. -/
def schnorrVerifyO (xc : G → X) (lift : X → Option G) (chal : X → X → M → F)
    (px : X) (m : M) (rx : X) (s : F) : Bool :=
  match lift px with
  | none => false
  | some P =>
    let e := chal rx px m
    let R := O.gadd (O.smul s O.gen) (O.gneg (O.smul e P))
    decide (R ≠ O.gzero) && O.evenY R && decide (xc R = rx)

end generic

/-! ## 3. ECDSA on secp256k1 -/

/-- SPEC (SEC 1 §4.1.3 step 5, as OpenSSL): the leftmost min(8·|h|, qbits) bits of the hash. -/
def bits2int (qbits : Nat) (h : Bytes) : Nat :=
  let blen := 8 * h.length
  if blen > qbits then unbe h >>> (blen - qbits) else unbe h

/-- SPEC. hash ↦ scalar -/
def fromHash (h : Bytes) : Nat := bits2int 256 h % n

/-- MODEL of `curve.FromHash` (pkg/math/curve/curve.go) for secp256k1: truncate to
    `orderBytes = 32` bytes first, shift out `excess` bits, reduce (`SetNat`). -/
def fromHashGo (h : Bytes) : Nat :=
  let orderBits := 256
  let orderBytes := (orderBits + 7) / 8
  let h := if h.length > orderBytes then h.take orderBytes else h
  let s := unbe h
  let s := if 8 * h.length > orderBits then s >>> (8 * h.length - orderBits) else s
  s % n

def ecdsaVerifySpec (X : Pt) (m : Nat) (R : Pt) (s : Nat) : Bool :=
  decide (s < n) && ecdsaVerifySpecO secp X m R s

/-- textbook (r, s) verification with the integer range checks 1 ≤ r, s ≤ n − 1 -/
def ecdsaVerifyRS (X : Pt) (m r s : Nat) : Bool :=
  decide (0 < r) && decide (r < n) && decide (0 < s) && decide (s < n) && ecdsaVerifyRSO secp X (m % n) r s

def verifyGo (X : Pt) (hash : Bytes) (R : Pt) (s : Nat) : Bool :=
  verifyGoO secp X (fromHashGo hash) R s

def ecdsaSign (x k m : Nat) : Pt × Nat := ecdsaSignO secp x k m

/-! ### decoders -/

/-- MODEL of `Secp256k1Point.UnmarshalBinary`: 33 bytes; `X.SetByteSlice(data[1:])` refuses
    x ≥ p; `DecompressY(&X, data[0] == 3, &Y)` — the prefix byte is only compared with 3. -/
def decodeGo (bs : Bytes) : Option Pt :=
  match bs with
  | [] => none
  | pre :: rest =>
    if rest.length ≠ 32 then none
    else liftXParity (unbe rest) (pre == 3)

/-- MODEL of the patched decoder proposed in hooks/secp256k1-strict-prefix.diff -/
def decodeFixed (bs : Bytes) : Option Pt :=
  match bs with
  | [] => none
  | pre :: rest =>
    if rest.length ≠ 32 then none
    else if pre ≠ 2 ∧ pre ≠ 3 then none
    else liftXParity (unbe rest) (pre == 3)

/-- MODEL of `Secp256k1Point.MarshalBinary` (`ToAffine` maps the identity to x = y = 0) -/
def encodeGo : Pt → Bytes
  | .inf => 0x02 :: List.replicate 32 0
  | P => encode P

/-- MODEL of `Secp256k1Scalar.UnmarshalBinary`: exactly 32 bytes, value < n -/
def scalarDecodeGo (bs : Bytes) : Option Nat :=
  if bs.length ≠ 32 then none
  else if unbe bs ≥ n then none else some (unbe bs)

/-! ### Ethereum export -/

/-- SPEC. 65 bytes r ‖ s ‖ v: r = x(R) mod n, s low (EIP-2), v = recovery id
    (bit 0: parity of y(R) after normalisation; bit 1: x(R) ≥ n). -/
def ethExportSpec (R : Pt) (s : Nat) : Option Bytes :=
  match R with
  | .inf => none
  | .aff x y =>
    let high := s > n / 2
    let s' := if high then n - s else s
    let par := (if y % 2 = 1 then 1 else 0) ^^^ (if high then 1 else 0)
    let v := par + (if x ≥ n then 2 else 0)
    some (beN 32 (x % n) ++ beN 32 s' ++ [UInt8.ofNat v])

def ethLowS (sig : Bytes) : Bool :=
  let s := unbe ((sig.drop 32).take 32)
  decide (0 < s) && decide (s ≤ n / 2)

/-- SPEC. Standard public-key recovery from r ‖ s ‖ v (v ∈ {0,1,2,3}) and the message scalar. -/
def ecrecover (m : Nat) (sig : Bytes) : Option Pt :=
  if sig.length ≠ 65 then none else
  let r := unbe (sig.take 32)
  let s := unbe ((sig.drop 32).take 32)
  let v := ((sig.drop 64).headD 0).toNat
  if r = 0 ∨ r ≥ n ∨ s = 0 ∨ s ≥ n ∨ v > 3 then none else
  let x := r + (v / 2) * n
  match liftXParity x (v % 2 == 1) with
  | none => none
  | some Rp =>
    let Q := recoverO secp (m % n) Rp s
    if Q = .inf then none else some Q

/-- MODEL of `Signature.SigEthereum`. The receiver is a struct VALUE holding two interface
    pointers, so `sig.S.Negate()` and `sig.R.UnmarshalBinary(r)` mutate the CALLER's signature:
    the result is (output or error, R afterwards, s afterwards). -/
def sigEthereumGoWith (dec : Bytes → Option Pt) (R : Pt) (s : Nat) : Option Bytes × Option Pt × Nat :=
  let over := s > n / 2                               -- IsOverHalfOrder
  let s' := if over then (n - s) % n else s           -- sig.S.Negate()
  let r := encodeGo R                                 -- sig.R.MarshalBinary()
  let sb := beN 32 s'                                 -- sig.S.MarshalBinary()
  let v : UInt8 := r.headD 0 - 2                      -- v := rs[0] - 2
  let v := if over then v ^^^ 1 else v
  let out := r.drop 1 ++ sb ++ [v]                    -- copy(rs, rs[1:]); rs[64] = v
  let r' := (v + 2) :: r.drop 1                       -- r[0] = rs[64] + 2
  match dec r' with                                   -- sig.R.UnmarshalBinary(r)
  | none => (none, none, s')
  | some R' => (some out, some R', s')

def sigEthereumGo (R : Pt) (s : Nat) : Option Bytes × Option Pt × Nat := sigEthereumGoWith decodeGo R s

/-- MODEL of `SigEthereum` after the patch proposed in hooks/ecdsa-sigethereum-reduce-r.diff:
    the exported r is `XScalar` (x mod n) and bit 1 of v records the reduction. `dec` is the point
    decoder in force. -/
def sigEthereumFixed (dec : Bytes → Option Pt) (R : Pt) (s : Nat) : Option Bytes × Option Pt × Nat :=
  let over := s > n / 2
  let s' := if over then (n - s) % n else s
  let r := encodeGo R
  let sb := beN 32 s'
  let rModN := beN 32 (xcoord R % n)                  -- sig.R.XScalar().MarshalBinary()
  let reduced := rModN != r.drop 1
  let v : UInt8 := r.headD 0 - 2
  let v := if over then v ^^^ 1 else v
  let r' := (v + 2) :: r.drop 1
  match dec r' with
  | none => (none, none, s')
  | some R' => (some (rModN ++ sb ++ [if reduced then v ||| 2 else v]), some R', s')

/-! ## 4. BIP-340 on secp256k1 -/

def bytesXor (a b : Bytes) : Bytes := List.zipWith (· ^^^ ·) a b

namespace Bip340
open Mps.Sha2

def challenge (rx px : Nat) (m : Bytes) : Nat :=
  unbe (taggedHash "BIP0340/challenge" [beN 32 rx, beN 32 px, m]) % n

/-- SPEC. Public key generation: d′ = int(sk); fail if d′ = 0 or d′ ≥ n; bytes(d′·G). -/
def pubkey (sk : Bytes) : Option Bytes :=
  if sk.length ≠ 32 then none else
  let d' := unbe sk
  if d' = 0 ∨ d' ≥ n then none else some (xBytes (mul d' G))

/-- SPEC. Verification (BIP-340 "Verification"); inputs of the wrong length are not accepted. -/
def verify (pk m sig : Bytes) : Bool :=
  if pk.length ≠ 32 ∨ sig.length ≠ 64 then false else
  let r := unbe (sig.take 32)
  let s := unbe (sig.drop 32)
  if r ≥ p ∨ s ≥ n then false else
  schnorrVerifyO secp xcoord liftX challenge (unbe pk) m r s

/-- SPEC. Default signing (BIP-340 "Default Signing") with auxiliary randomness `aux` (32 bytes). -/
def sign (sk aux m : Bytes) : Option Bytes :=
  if sk.length ≠ 32 ∨ aux.length ≠ 32 then none else
  let d' := unbe sk
  if d' = 0 ∨ d' ≥ n then none else
  let P := mul d' G
  let d := if hasEvenY P then d' else n - d'
  let t := bytesXor (beN 32 d) (taggedHash "BIP0340/aux" [aux])
  let rand := taggedHash "BIP0340/nonce" [t, xBytes P, m]
  let k' := unbe rand % n
  if k' = 0 then none else
  let (rx, s) := schnorrSignO secp xcoord challenge d' k' m
  let sig := beN 32 rx ++ beN 32 s
  if verify (xBytes P) m sig then some sig else none

/-! ### model of pkg/taproot/signature.go -/

/-- where `Sign` takes the 32 bytes `a` from: the reader, or (rand == nil) the value the atomic
    counter returned, big-endian in the first 8 bytes -/
inductive RandSrc
  | reader (a : Bytes)
  | counter (ctr : Nat)
  deriving Repr, DecidableEq

def auxOf : RandSrc → Bytes
  | .reader a => a
  | .counter c => beN 8 c ++ List.replicate 24 0

/-- the input of the nonce hash: t ‖ bytes(P) ‖ m with t = bytes(d) ⊕ hash_aux(a) -/
def nonceInput (dBytes auxHash pBytes m : Bytes) : Bytes := bytesXor dBytes auxHash ++ pBytes ++ m

/-- MODEL of `SecretKey.Public` -/
def publicGo (sk : Bytes) : Option Bytes :=
  match scalarDecodeGo sk with
  | none => none
  | some d => if d = 0 then none else some (xBytes (mul d G))

/-- MODEL of `SecretKey.Sign(rand, m)` -/
def signGo (sk : Bytes) (rs : RandSrc) (m : Bytes) : Option Bytes :=
  match scalarDecodeGo sk with                                   -- d.UnmarshalBinary(sk); d.IsZero()
  | none => none
  | some d =>
    if d = 0 then none else
    let P := mul d G
    let PBytes := xBytes P
    let d := if !hasEvenY P then (n - d) % n else d                -- d.Negate()
    let a := auxOf rs
    let t := beN 32 d                                              -- d.MarshalBinary()
    let aHash := taggedHash "BIP0340/aux" [a]
    let t := bytesXor t aHash                                      -- t[i] ^= aHash[i]
    let randHash := taggedHash "BIP0340/nonce" [t, PBytes, m]
    let k := unbe randHash % n                                     -- _ = k.UnmarshalBinary(randHash)
    if k = 0 then none else                                        -- "invalid nonce"
    let R := mul k G
    let k := if !hasEvenY R then (n - k) % n else k                -- k.Negate()
    let RBytes := xBytes R
    let e := unbe (taggedHash "BIP0340/challenge" [RBytes, PBytes, m]) % n
    let z := (e * d % n + k) % n                                   -- e.Mul(d).Add(k)
    some (RBytes ++ beN 32 z)

/-- MODEL of `PublicKey.Verify(sig, m)`. `LiftX` goes through `FieldVal.SetByteSlice`, which
    takes the first 32 bytes of `pk` (left-padding a shorter slice): the length of `pk` is never
    checked, while the challenge hashes `pk` as given. -/
def verifyGo (pk m sig : Bytes) : Bool :=
  if sig.length ≠ 64 then false else                               -- len(sig) != SignatureLen
  match liftX (unbe (pk.take 32)) with                             -- Secp256k1{}.LiftX(pk)
  | none => false
  | some P =>
    match scalarDecodeGo (sig.drop 32) with                        -- s.UnmarshalBinary(sig[32:])
    | none => false
    | some s =>
      let e := unbe (taggedHash "BIP0340/challenge" [sig.take 32, pk, m]) % n
      let R := mul s G                                             -- s.ActOnBase()
      let check := add R (neg (mul e P))                           -- R.Sub(e.Act(P))
      if check = .inf then false                                   -- IsIdentity
      else if !hasEvenY check then false
      else xBytes check == sig.take 32

/-- MODEL of `PublicKey.Verify` after the patch proposed in hooks/secp256k1-liftx-length.diff
    (`LiftX` refuses slices that are not 32 bytes long) -/
def verifyFixed (pk m sig : Bytes) : Bool :=
  if pk.length ≠ 32 then false else verifyGo pk m sig

/-! ### BIP-340 test vectors 0–4 of test-vectors.csv (tests, not theorems) -/

def vectors : List (String × String × String × String × String) :=
  [ ("0000000000000000000000000000000000000000000000000000000000000003",
     "f9308a019258c31049344f85f89d5229b531c845836f99b08601f113bce036f9",
     "0000000000000000000000000000000000000000000000000000000000000000",
     "0000000000000000000000000000000000000000000000000000000000000000",
     "e907831f80848d1069a5371b402410364bdf1c5f8307b0084c55f1ce2dca821525f66a4a85ea8b71e482a74f382d2ce5ebeee8fdb2172f477df4900d310536c0"),
    ("b7e151628aed2a6abf7158809cf4f3c762e7160f38b4da56a784d9045190cfef",
     "dff1d77f2a671c5f36183726db2341be58feae1da2deced843240f7b502ba659",
     "0000000000000000000000000000000000000000000000000000000000000001",
     "243f6a8885a308d313198a2e03707344a4093822299f31d0082efa98ec4e6c89",
     "6896bd60eeae296db48a229ff71dfe071bde413e6d43f917dc8dcf8c78de33418906d11ac976abccb20b091292bff4ea897efcb639ea871cfa95f6de339e4b0a"),
    ("c90fdaa22168c234c4c6628b80dc1cd129024e088a67cc74020bbea63b14e5c9",
     "dd308afec5777e13121fa72b9cc1b7cc0139715309b086c960e18fd969774eb8",
     "c87aa53824b4d7ae2eb035a2b5bbbccc080e76cdc6d1692c4b0b62d798e6d906",
     "7e2d58d8b3bcdf1abadec7829054f90dda9805aab56c77333024b9d0a508b75c",
     "5831aaeed7b44bb74e5eab94ba9d4294c49bcf2a60728d8b4c200f50dd313c1bab745879a5ad954a72c45a91c3a51d3c7adea98d82f8481e0e1e03674a6f3fb7"),
    ("0b432b2677937381aef05bb02a66ecd012773062cf3fa2549e44f58ed2401710",
     "25d1dff95105f5253c4022f628a996ad3a0d95fbf21d468a1b33f8c160d8f517",
     "ffffffffffffffffffffffffffffffffffffffffffffffffffffffffffffffff",
     "ffffffffffffffffffffffffffffffffffffffffffffffffffffffffffffffff",
     "7eb0509757e246f19449885651611cb965ecc1a187dd51b64fda1edc9637d5ec97582b9cb13db3933705b32ba982af5af25fd78881ebb32771fc5922efc66ea3") ]

def hexB (s : String) : Bytes := (ofHex s).getD []

def selfTest : Bool :=
  vectors.all fun (sk, pk, aux, m, sig) =>
    pubkey (hexB sk) == some (hexB pk)
    && sign (hexB sk) (hexB aux) (hexB m) == some (hexB sig)
    && signGo (hexB sk) (.reader (hexB aux)) (hexB m) == some (hexB sig)
    && verify (hexB pk) (hexB m) (hexB sig)
    && verifyGo (hexB pk) (hexB m) (hexB sig)

end Bip340

/-- ECDSA / Ethereum self test on a fixed key: sign, verify three ways, export, recover. -/
def selfTest : Bool :=
  let x := 0xAA5E28D6A97A2479A65527F7290311A3624D4CC0FA1578598EE3C2613BF99522
  let X := mul x G
  let hs : List Bytes := [[], [1, 2, 3], List.replicate 32 0xab, List.replicate 40 0xff]
  hs.all fun h =>
    let m := fromHash h
    [7, x / 3, n - 5].all fun k =>
      let (R, s) := ecdsaSign x k m
      fromHashGo h == m
      && ecdsaVerifySpec X m R s && verifyGo X h R s && ecdsaVerifyRS X m (xcoord R % n) s
      && !ecdsaVerifySpec X ((m + 1) % n) R s
      && ecdsaVerifySpec X m (neg R) (n - s)
      && (match ethExportSpec R s with
          | none => false
          | some e => ethLowS e && ecrecover m e == some X
                      && (sigEthereumGo R s).1 == some e)
      && decodeGo (encode R) == some R && decodeStrict (encode R) == some R

end Mps.Sig
