package main

// Guard tables of the restore paths (C15).
func init() {
	registerModule("Codec", func() []Fact {
		g := guardsIn
		return []Fact{
			{"cmpUnmarshalBinary", "cmp Config.UnmarshalBinary: conditions that refuse the data", g("protocols/cmp/config/marshal.go", "Config.UnmarshalBinary")},
			{"cmpUnmarshalDecode", "cmp Config.UnmarshalBinary: decode calls", callsIn("protocols/cmp/config/marshal.go", "Config.UnmarshalBinary", `Unmarshal$`)},
			{"messageUnmarshalBinary", "protocol.Message.UnmarshalBinary: what a decoding error leads to", g("pkg/protocol/message.go", "Message.UnmarshalBinary")},
			{"frostUnmarshalCBOR", "frost Config.UnmarshalCBOR (absent: default struct decoding, no validation)", g("protocols/frost/keygen/config.go", "Config.UnmarshalCBOR")},
			{"taprootUnmarshalCBOR", "frost TaprootConfig.UnmarshalCBOR", g("protocols/frost/keygen/config.go", "TaprootConfig.UnmarshalCBOR")},
			{"doernerReceiverUnmarshalCBOR", "doerner ConfigReceiver.UnmarshalCBOR", g("protocols/doerner/keygen/keygen.go", "ConfigReceiver.UnmarshalCBOR")},
			{"doernerSenderUnmarshalCBOR", "doerner ConfigSender.UnmarshalCBOR", g("protocols/doerner/keygen/keygen.go", "ConfigSender.UnmarshalCBOR")},
			{"presigUnmarshalCBOR", "ecdsa.PreSignature.UnmarshalCBOR", g("pkg/ecdsa/presignature.go", "PreSignature.UnmarshalCBOR")},
			{"signatureUnmarshalCBOR", "ecdsa.Signature.UnmarshalCBOR", g("pkg/ecdsa/signature.go", "Signature.UnmarshalCBOR")},
			{"validatePrime", "paillier.ValidatePrime: what a restored prime is held to", g("pkg/paillier/secret.go", "ValidatePrime")},
			{"validateN", "paillier.ValidateN", g("pkg/paillier/public.go", "ValidateN")},
			{"pedersenValidateParameters", "pedersen.ValidateParameters", g("pkg/pedersen/pedersen.go", "ValidateParameters")},
			{"ridValidate", "types.RID.Validate", g("internal/types/rid.go", "RID.Validate")},
			{"frostConfigValidate", "frost Config.Validate: the rules a restored config is held to", g("protocols/frost/keygen/config.go", "Config.Validate")},
			{"taprootConfigValidate", "frost TaprootConfig.Validate", g("protocols/frost/keygen/config.go", "TaprootConfig.Validate")},
			{"frostValidateShares", "frost validateShares", g("protocols/frost/keygen/config.go", "validateShares")},
			{"doernerReceiverValidate", "doerner ConfigReceiver.Validate", g("protocols/doerner/keygen/keygen.go", "ConfigReceiver.Validate")},
			{"doernerSenderValidate", "doerner ConfigSender.Validate", g("protocols/doerner/keygen/keygen.go", "ConfigSender.Validate")},
			{"otSendSetupFields", "ot.CorreOTSendSetup: fields (unexported: dropped by the default encoder) and its own encoder", append(structFields("internal/ot/correlated.go", "CorreOTSendSetup"), returnsIn("internal/ot/correlated.go", "CorreOTSendSetup.MarshalBinary")...)},
		}
	})
}
