// translator: re-extracts structural facts from /repo's CURRENT source (go/parser + go/ast,
// standard library only) and writes them as plain Lean `def`s into lean/MpsGen/*.lean
// (+ facts.json for the evidence). Files are rewritten only when their content changes so
// that lake's cache survives an unchanged tree. A fact that can no longer be extracted is
// emitted as the single entry "<<MISSING: ...>>" — the Lean obligation over it then fails,
// i.e. a broken tie is reported, never silently skipped.
package main

import (
	"bytes"
	"encoding/json"
	"fmt"
	"go/ast"
	"go/parser"
	"go/printer"
	"go/token"
	"os"
	"path/filepath"
	"regexp"
	"sort"
	"strings"
)

var repo = "/repo"
var fset = token.NewFileSet()
var fileCache = map[string]*ast.File{}

func parseFile(rel string) *ast.File {
	if f, ok := fileCache[rel]; ok {
		return f
	}
	f, err := parser.ParseFile(fset, filepath.Join(repo, rel), nil, parser.ParseComments)
	if err != nil {
		fileCache[rel] = nil
		return nil
	}
	fileCache[rel] = f
	return f
}

func src(n ast.Node) string {
	var b bytes.Buffer
	printer.Fprint(&b, fset, n)
	s := b.String()
	s = regexp.MustCompile(`\s+`).ReplaceAllString(s, " ")
	return s
}

func recvName(fd *ast.FuncDecl) string {
	if fd.Recv == nil || len(fd.Recv.List) == 0 {
		return ""
	}
	t := fd.Recv.List[0].Type
	if st, ok := t.(*ast.StarExpr); ok {
		t = st.X
	}
	if id, ok := t.(*ast.Ident); ok {
		return id.Name
	}
	return src(t)
}

// findFunc: "Recv.Name" or "Name"
func findFunc(rel, name string) *ast.FuncDecl {
	f := parseFile(rel)
	if f == nil {
		return nil
	}
	recv, fn := "", name
	if i := strings.Index(name, "."); i >= 0 {
		recv, fn = name[:i], name[i+1:]
	}
	for _, d := range f.Decls {
		if fd, ok := d.(*ast.FuncDecl); ok && fd.Name.Name == fn && recvName(fd) == recv {
			return fd
		}
	}
	return nil
}

func missing(what string) []string { return []string{"<<MISSING: " + what + ">>"} }

// callsIn returns, in source order, the printed call expressions inside fn whose callee text
// matches re; each is prefixed by the conditions of the enclosing if statements ("if c: ").
func callsIn(rel, fn string, re string) []string {
	fd := findFunc(rel, fn)
	if fd == nil || fd.Body == nil {
		return missing(rel + ":" + fn)
	}
	rx := regexp.MustCompile(re)
	out := []string{}
	var walk func(n ast.Node, conds []string)
	walk = func(n ast.Node, conds []string) {
		switch x := n.(type) {
		case nil:
			return
		case *ast.IfStmt:
			if x.Init != nil {
				walk(x.Init, conds)
			}
			walk(x.Cond, conds)
			c2 := append(append([]string{}, conds...), src(x.Cond))
			if x.Init != nil {
				c2[len(c2)-1] = src(x.Init) + "; " + c2[len(c2)-1]
			}
			walk(x.Body, c2)
			if x.Else != nil {
				walk(x.Else, append(append([]string{}, conds...), "else"))
			}
			return
		case *ast.CallExpr:
			if rx.MatchString(src(x.Fun)) {
				p := ""
				for _, c := range conds {
					p += "if " + c + ": "
				}
				out = append(out, p+src(x))
			}
		}
		ast.Inspect(n, func(m ast.Node) bool {
			if m == n || m == nil {
				return true
			}
			walk(m, conds)
			return false
		})
	}
	walk(fd.Body, nil)
	return out
}

// compositesIn: printed composite literals of type matching re inside fn, in order.
func compositesIn(rel, fn, re string) []string {
	fd := findFunc(rel, fn)
	if fd == nil || fd.Body == nil {
		return missing(rel + ":" + fn)
	}
	rx := regexp.MustCompile(re)
	out := []string{}
	ast.Inspect(fd.Body, func(n ast.Node) bool {
		if c, ok := n.(*ast.CompositeLit); ok && c.Type != nil && rx.MatchString(src(c.Type)) {
			out = append(out, src(c))
		}
		return true
	})
	return out
}

// returnsIn: printed operands of all return statements of fn.
func returnsIn(rel, fn string) []string {
	fd := findFunc(rel, fn)
	if fd == nil || fd.Body == nil {
		return missing(rel + ":" + fn)
	}
	out := []string{}
	ast.Inspect(fd.Body, func(n ast.Node) bool {
		if r, ok := n.(*ast.ReturnStmt); ok {
			parts := []string{}
			for _, e := range r.Results {
				parts = append(parts, src(e))
			}
			out = append(out, strings.Join(parts, ", "))
		}
		return true
	})
	return out
}

// guardsIn: the conditions of the if statements of fn whose body returns, in order,
// each followed by what is returned ("cond => ret").
func guardsIn(rel, fn string) []string {
	fd := findFunc(rel, fn)
	if fd == nil || fd.Body == nil {
		return missing(rel + ":" + fn)
	}
	out := []string{}
	ast.Inspect(fd.Body, func(n ast.Node) bool {
		if is, ok := n.(*ast.IfStmt); ok {
			for _, s := range is.Body.List {
				if r, ok := s.(*ast.ReturnStmt); ok {
					parts := []string{}
					for _, e := range r.Results {
						parts = append(parts, src(e))
					}
					c := src(is.Cond)
					if is.Init != nil {
						c = src(is.Init) + "; " + c
					}
					out = append(out, c+" => "+strings.Join(parts, ", "))
				}
			}
		}
		return true
	})
	return out
}

// callArgs: the printed arguments of the first call in fn whose callee matches re.
func callArgs(rel, fn, re string) []string {
	fd := findFunc(rel, fn)
	if fd == nil || fd.Body == nil {
		return missing(rel + ":" + fn)
	}
	rx := regexp.MustCompile(re)
	var out []string
	ast.Inspect(fd.Body, func(n ast.Node) bool {
		if out != nil {
			return false
		}
		if c, ok := n.(*ast.CallExpr); ok && rx.MatchString(src(c.Fun)) {
			out = []string{}
			for _, a := range c.Args {
				out = append(out, src(a))
			}
			return false
		}
		return true
	})
	if out == nil {
		return missing(rel + ":" + fn + ":" + re)
	}
	return out
}

// allCallArgs: printed arguments of EVERY call in fn whose callee matches re, flattened in order.
func allCallArgs(rel, fn, re string) []string {
	fd := findFunc(rel, fn)
	if fd == nil || fd.Body == nil {
		return missing(rel + ":" + fn)
	}
	rx := regexp.MustCompile(re)
	out := []string{}
	ast.Inspect(fd.Body, func(n ast.Node) bool {
		if c, ok := n.(*ast.CallExpr); ok && rx.MatchString(src(c.Fun)) {
			for _, a := range c.Args {
				out = append(out, src(a))
			}
		}
		return true
	})
	return out
}

// rangesIn: the "k, v := range X" headers of the range statements of fn, in order.
func rangesIn(rel, fn string) []string {
	fd := findFunc(rel, fn)
	if fd == nil || fd.Body == nil {
		return missing(rel + ":" + fn)
	}
	out := []string{}
	ast.Inspect(fd.Body, func(n ast.Node) bool {
		if r, ok := n.(*ast.RangeStmt); ok {
			k, v := "_", "_"
			if r.Key != nil {
				k = src(r.Key)
			}
			if r.Value != nil {
				v = src(r.Value)
			}
			out = append(out, k+", "+v+" := range "+src(r.X))
		}
		return true
	})
	return out
}

// lockTable: for every exported method of receiver type recv in rel: "Name: <first stmt>; <second stmt>"
func lockTable(rel, recv string) []string {
	f := parseFile(rel)
	if f == nil {
		return missing(rel)
	}
	out := []string{}
	for _, d := range f.Decls {
		fd, ok := d.(*ast.FuncDecl)
		if !ok || fd.Recv == nil || recvName(fd) != recv || !fd.Name.IsExported() || fd.Body == nil || fd.Name.Name == "String" {
			continue
		}
		first := []string{}
		for i, st := range fd.Body.List {
			if i >= 2 {
				break
			}
			first = append(first, src(st))
		}
		out = append(out, fd.Name.Name+": "+strings.Join(first, "; "))
	}
	return out
}

// structFields: "name type" for every field of struct type `name` in rel.
func structFields(rel, name string) []string {
	f := parseFile(rel)
	if f == nil {
		return missing(rel)
	}
	var out []string
	ast.Inspect(f, func(n ast.Node) bool {
		ts, ok := n.(*ast.TypeSpec)
		if !ok || ts.Name.Name != name {
			return true
		}
		st, ok := ts.Type.(*ast.StructType)
		if !ok {
			return true
		}
		out = []string{}
		for _, fl := range st.Fields.List {
			if len(fl.Names) == 0 {
				out = append(out, "<embedded> "+src(fl.Type))
			}
			for _, nm := range fl.Names {
				out = append(out, nm.Name+" "+src(fl.Type))
			}
		}
		return false
	})
	if out == nil {
		return missing(rel + ":type " + name)
	}
	return out
}

// constsIn: "name = value" for every constant in rel.
func constsIn(rel string) []string {
	f := parseFile(rel)
	if f == nil {
		return missing(rel)
	}
	out := []string{}
	for _, d := range f.Decls {
		gd, ok := d.(*ast.GenDecl)
		if !ok || gd.Tok != token.CONST {
			continue
		}
		for _, s := range gd.Specs {
			vs := s.(*ast.ValueSpec)
			for i, nm := range vs.Names {
				if i < len(vs.Values) {
					out = append(out, nm.Name+" = "+src(vs.Values[i]))
				}
			}
		}
	}
	return out
}

// switchCases: the case type lists of the first type switch in fn.
func switchCases(rel, fn string) []string {
	fd := findFunc(rel, fn)
	if fd == nil || fd.Body == nil {
		return missing(rel + ":" + fn)
	}
	var out []string
	ast.Inspect(fd.Body, func(n ast.Node) bool {
		ts, ok := n.(*ast.TypeSwitchStmt)
		if !ok || out != nil {
			return out == nil
		}
		out = []string{}
		for _, c := range ts.Body.List {
			cc := c.(*ast.CaseClause)
			if cc.List == nil {
				out = append(out, "default")
			}
			for _, e := range cc.List {
				out = append(out, src(e))
			}
		}
		return false
	})
	if out == nil {
		return missing(rel + ":" + fn + ": type switch")
	}
	return out
}

// domainTable: every `Domain() string` method in the repo: "pkgdir|Recv|lit1|lit2..."
func domainTable() []string {
	out := []string{}
	filepath.Walk(repo, func(p string, info os.FileInfo, err error) error {
		if err != nil || info.IsDir() || !strings.HasSuffix(p, ".go") || strings.HasSuffix(p, "_test.go") {
			return nil
		}
		rel, _ := filepath.Rel(repo, p)
		if strings.HasPrefix(rel, "internal/verifharness") {
			return nil
		}
		f := parseFile(rel)
		if f == nil {
			return nil
		}
		for _, d := range f.Decls {
			fd, ok := d.(*ast.FuncDecl)
			if !ok || fd.Name.Name != "Domain" || fd.Recv == nil || fd.Body == nil {
				continue
			}
			lits := []string{}
			ast.Inspect(fd.Body, func(n ast.Node) bool {
				if r, ok := n.(*ast.ReturnStmt); ok {
					for _, e := range r.Results {
						lits = append(lits, strings.Trim(src(e), `"`))
					}
				}
				return true
			})
			out = append(out, filepath.Dir(rel)+"|"+recvName(fd)+"|"+strings.Join(lits, "|"))
		}
		return nil
	})
	sort.Strings(out)
	return out
}

// ---------------------------------------------------------------------------------------------

type Fact struct {
	Name string
	Doc  string
	Val  []string
}

type Module struct {
	Name  string
	Facts []Fact
}

// table files (tables_*.go) register a module by name; facts are computed lazily, after `repo` is set
var moduleFns = map[string]func() []Fact{}

func registerModule(name string, f func() []Fact) { moduleFns[name] = f }

func allModules() []Module {
	names := []string{}
	for n := range moduleFns {
		names = append(names, n)
	}
	sort.Strings(names)
	out := []Module{}
	for _, n := range names {
		out = append(out, Module{n, moduleFns[n]()})
	}
	return out
}

func leanStr(s string) string {
	s = strings.ReplaceAll(s, `\`, `\\`)
	s = strings.ReplaceAll(s, `"`, `\"`)
	s = strings.ReplaceAll(s, "\n", `\n`)
	s = strings.ReplaceAll(s, "\t", `\t`)
	return `"` + s + `"`
}

func (m Module) render() string {
	var b strings.Builder
	b.WriteString("-- GENERATED by /verif/translator from /repo's working tree. Do not edit.\n")
	b.WriteString("namespace MpsGen." + m.Name + "\n\n")
	for _, f := range m.Facts {
		b.WriteString("/-- " + f.Doc + " -/\n")
		b.WriteString("def " + f.Name + " : List String := [\n")
		for i, v := range f.Val {
			b.WriteString("  " + leanStr(v))
			if i+1 < len(f.Val) {
				b.WriteString(",")
			}
			b.WriteString("\n")
		}
		b.WriteString("]\n\n")
	}
	b.WriteString("end MpsGen." + m.Name + "\n")
	return b.String()
}

func writeIfChanged(path, content string) bool {
	old, err := os.ReadFile(path)
	if err == nil && string(old) == content {
		return false
	}
	os.MkdirAll(filepath.Dir(path), 0o755)
	if err := os.WriteFile(path, []byte(content), 0o644); err != nil {
		panic(err)
	}
	return true
}

func main() {
	out := "/verif/lean/MpsGen"
	if len(os.Args) > 1 {
		repo = os.Args[1]
	}
	if len(os.Args) > 2 {
		out = os.Args[2]
	}
	mods := allModules()
	facts := map[string]map[string][]string{}
	root := "-- GENERATED. Root of the regenerated fact tables.\n"
	for _, m := range mods {
		changed := writeIfChanged(filepath.Join(out, m.Name+".lean"), m.render())
		facts[m.Name] = map[string][]string{}
		for _, f := range m.Facts {
			facts[m.Name][f.Name] = f.Val
		}
		root += "import MpsGen." + m.Name + "\n"
		if changed {
			fmt.Println("regenerated", m.Name)
		}
	}
	writeIfChanged(filepath.Join(filepath.Dir(out), "MpsGen.lean"), root)
	js, _ := json.MarshalIndent(facts, "", " ")
	writeIfChanged(filepath.Join(out, "facts.json"), string(js))
}
