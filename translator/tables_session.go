package main

import (
	"go/ast"
	"go/token"
	"os"
	"path/filepath"
	"sort"
	"strings"
)

// protocolIDs: every value given to a round.Info.ProtocolID anywhere under protocols/, as
// "file:enclosing func|literal" (identifiers are resolved through the constants of the package).
func protocolIDs() []string {
	out := []string{}
	root := filepath.Join(repo, "protocols")
	filepath.Walk(root, func(p string, info os.FileInfo, err error) error {
		if err != nil || info.IsDir() || !strings.HasSuffix(p, ".go") || strings.HasSuffix(p, "_test.go") {
			return nil
		}
		rel, _ := filepath.Rel(repo, p)
		f := parseFile(rel)
		if f == nil {
			return nil
		}
		consts := map[string]string{}
		dir := filepath.Dir(p)
		ents, _ := os.ReadDir(dir)
		for _, e := range ents {
			if !strings.HasSuffix(e.Name(), ".go") || strings.HasSuffix(e.Name(), "_test.go") {
				continue
			}
			r2, _ := filepath.Rel(repo, filepath.Join(dir, e.Name()))
			g := parseFile(r2)
			if g == nil {
				continue
			}
			for _, d := range g.Decls {
				gd, ok := d.(*ast.GenDecl)
				if !ok || gd.Tok != token.CONST {
					continue
				}
				for _, s := range gd.Specs {
					vs := s.(*ast.ValueSpec)
					for i, nm := range vs.Names {
						if i < len(vs.Values) {
							consts[nm.Name] = src(vs.Values[i])
						}
					}
				}
			}
		}
		resolve := func(e ast.Expr) string {
			s := src(e)
			if v, ok := consts[s]; ok {
				s = v
			}
			return strings.Trim(s, `"`)
		}
		for _, d := range f.Decls {
			fd, ok := d.(*ast.FuncDecl)
			if !ok || fd.Body == nil {
				continue
			}
			ast.Inspect(fd.Body, func(n ast.Node) bool {
				switch x := n.(type) {
				case *ast.KeyValueExpr:
					if id, ok := x.Key.(*ast.Ident); ok && id.Name == "ProtocolID" {
						out = append(out, rel+":"+fd.Name.Name+"|"+resolve(x.Value))
					}
				case *ast.AssignStmt:
					for i, l := range x.Lhs {
						if se, ok := l.(*ast.SelectorExpr); ok && se.Sel.Name == "ProtocolID" && i < len(x.Rhs) {
							out = append(out, rel+":"+fd.Name.Name+"|"+resolve(x.Rhs[i]))
						}
					}
				}
				return true
			})
		}
		return nil
	})
	sort.Strings(out)
	return out
}

func init() {
	registerModule("Protocols", func() []Fact {
		return []Fact{
			{"protocolIDs", "every ProtocolID given to a session: file:func|id", protocolIDs()},
			{"cmpConfigWrite", "cmp config.Config.WriteTo: what goes into the session hash for refresh/sign/presign", callsIn("protocols/cmp/config/config.go", "Config.WriteTo", `WriteTo|Write|PartyIDs`)},
			{"cmpPublicWrite", "cmp config.Public.WriteTo", callsIn("protocols/cmp/config/config.go", "Public.WriteTo", `WriteTo|Write|MarshalBinary`)},
			{"cmpSignSession", "cmp sign: NewSession arguments", callArgs("protocols/cmp/sign/sign.go", "StartSign", `round\.NewSession`)},
			{"cmpPresignSession", "cmp presign: NewSession arguments", allCallArgs("protocols/cmp/presign/sign.go", "StartPresign", `round\.NewSession`)},
			{"cmpPresignOnlineSession", "cmp presign online: NewSession arguments", allCallArgs("protocols/cmp/presign/sign.go", "StartPresignOnline", `round\.NewSession`)},
			{"cmpKeygenSession", "cmp keygen/refresh: NewSession arguments", allCallArgs("protocols/cmp/keygen/keygen.go", "Start", `round\.NewSession`)},
		}
	})
}
