package main

// Fact tables of the 15 proof systems of pkg/zk (property C10). Per package:
//   <n>_public / <n>_commitment / <n>_proof  field names of the structs `Public`, `Commitment`, `Proof`
//                                           (sch: `Commitment`, `Response`, `Proof`; "<none>" when the struct does not exist)
//   <n>_fields        "Struct.Field type" for the three structs (the Go type decides how the value is hashed)
//   <n>_params        parameters of challenge() ("name type"), without the hash state and the group
//   <n>_sel_recv / <n>_sel_field   the ordered selector list written into the hash by challenge(), split at the
//                                  first dot ("public.Aux" -> "public","Aux"; a bare parameter p -> "","p";
//                                  the element variable of `for _, a := range A` -> "each","A")
//   <n>_challenge     the same list unsplit + the sampling call that turns the digest into the challenge
//   <n>_ranges        (response field, range predicate) pairs found in Verify: "Z1|IsInIntervalLEps"
//   <n>_isvalid       guards of IsValid
//   <n>_verify        ordered checks of Verify (guards and the calls the equations are made of)

import (
	"go/ast"
	"regexp"
	"strings"
)

var zkSystems = []string{"sch", "mod", "prm", "fac", "enc", "encelg", "affg", "affp", "logstar", "elog", "log", "nth", "dec", "mul", "mulstar"}

func zkFile(n string) string { return "pkg/zk/" + n + "/" + n + ".go" }

// structFieldNames: the field names of struct `name` ("<none>" if the struct does not exist; embedded
// fields are reported as "<embedded T>").
func structFieldNames(rel, name string) []string {
	fs := structFields(rel, name)
	if len(fs) == 1 && strings.HasPrefix(fs[0], "<<MISSING") {
		return []string{"<none>"}
	}
	out := []string{}
	for _, f := range fs {
		if strings.HasPrefix(f, "<embedded> ") {
			out = append(out, "<embedded "+strings.TrimPrefix(f, "<embedded> ")+">")
			continue
		}
		out = append(out, strings.SplitN(f, " ", 2)[0])
	}
	return out
}

func structFieldTypes(rel string, names ...string) []string {
	out := []string{}
	for _, n := range names {
		fs := structFields(rel, n)
		if len(fs) == 1 && strings.HasPrefix(fs[0], "<<MISSING") {
			continue
		}
		for _, f := range fs {
			out = append(out, n+"."+f)
		}
	}
	return out
}

// funcParams: "name type" of every parameter of fn except those named hash / group.
func funcParams(rel, fn string) []string {
	fd := findFunc(rel, fn)
	if fd == nil {
		return missing(rel + ":" + fn)
	}
	out := []string{}
	for _, fl := range fd.Type.Params.List {
		for _, nm := range fl.Names {
			if nm.Name == "hash" || nm.Name == "group" {
				continue
			}
			out = append(out, nm.Name+" "+src(fl.Type))
		}
	}
	return out
}

// challengeSelectors: arguments of every WriteAny call of challenge(), in order; the element variable of an
// enclosing range statement is reported as "each <ranged expr>".
func challengeSelectors(rel string) []string {
	fd := findFunc(rel, "challenge")
	if fd == nil || fd.Body == nil {
		return missing(rel + ":challenge")
	}
	out := []string{}
	var walk func(n ast.Node, loop map[string]string)
	walk = func(n ast.Node, loop map[string]string) {
		switch x := n.(type) {
		case nil:
			return
		case *ast.RangeStmt:
			l2 := map[string]string{}
			for k, v := range loop {
				l2[k] = v
			}
			if id, ok := x.Value.(*ast.Ident); ok {
				l2[id.Name] = src(x.X)
			}
			walk(x.Body, l2)
			return
		case *ast.CallExpr:
			if strings.HasSuffix(src(x.Fun), "WriteAny") {
				for _, a := range x.Args {
					s := src(a)
					if r, ok := loop[s]; ok {
						s = "each " + r
					}
					out = append(out, s)
				}
				return
			}
		}
		ast.Inspect(n, func(m ast.Node) bool {
			if m == n || m == nil {
				return true
			}
			walk(m, loop)
			return false
		})
	}
	walk(fd.Body, map[string]string{})
	if len(out) == 0 {
		return missing(rel + ":challenge: no WriteAny")
	}
	return out
}

func splitSelectors(sel []string) (recv, field []string) {
	for _, s := range sel {
		switch {
		case strings.HasPrefix(s, "each "):
			recv = append(recv, "each")
			field = append(field, strings.TrimPrefix(s, "each "))
		case strings.Contains(s, "."):
			i := strings.Index(s, ".")
			recv = append(recv, s[:i])
			field = append(field, s[i+1:])
		default:
			recv = append(recv, "")
			field = append(field, s)
		}
	}
	return
}

// stmtsIn: the top-level statements of fn, printed one per entry.
func stmtsIn(rel, fn string) []string {
	fd := findFunc(rel, fn)
	if fd == nil || fd.Body == nil {
		return missing(rel + ":" + fn)
	}
	out := []string{}
	for _, st := range fd.Body.List {
		out = append(out, src(st))
	}
	return out
}

// rangeChecks: "Field|Predicate" for every arith.IsInInterval*(p.Field) call in fn.
func rangeChecks(rel, fn string) []string {
	fd := findFunc(rel, fn)
	if fd == nil || fd.Body == nil {
		return missing(rel + ":" + fn)
	}
	rx := regexp.MustCompile(`^arith\.(IsInInterval\w*)$`)
	out := []string{}
	ast.Inspect(fd.Body, func(n ast.Node) bool {
		if c, ok := n.(*ast.CallExpr); ok {
			if m := rx.FindStringSubmatch(src(c.Fun)); m != nil {
				for _, a := range c.Args {
					s := src(a)
					if i := strings.Index(s, "."); i >= 0 {
						s = s[i+1:]
					}
					out = append(out, s+"|"+m[1])
				}
			}
		}
		return true
	})
	return out
}

// challengeCall: the call of challenge() inside the Verify function: for every argument "param|recv|field", where
// param is the name of the matching parameter of challenge(), and the argument is split at the first dot after
// local aliases of the form `x := public.F` have been resolved.
func challengeCall(rel, fn string) []string {
	fd := findFunc(rel, fn)
	ch := findFunc(rel, "challenge")
	if fd == nil || fd.Body == nil || ch == nil {
		return missing(rel + ":" + fn + ": challenge call")
	}
	pnames := []string{}
	for _, fl := range ch.Type.Params.List {
		for _, nm := range fl.Names {
			pnames = append(pnames, nm.Name)
		}
	}
	alias := map[string]string{}
	var out []string
	ast.Inspect(fd.Body, func(n ast.Node) bool {
		switch x := n.(type) {
		case *ast.AssignStmt:
			if len(x.Lhs) == 1 && len(x.Rhs) == 1 {
				if id, ok := x.Lhs[0].(*ast.Ident); ok {
					if se, ok := x.Rhs[0].(*ast.SelectorExpr); ok {
						alias[id.Name] = src(se)
					}
				}
			}
		case *ast.CallExpr:
			if out == nil && src(x.Fun) == "challenge" {
				out = []string{}
				for i, a := range x.Args {
					sa := src(a)
					if r, ok := alias[sa]; ok {
						sa = r
					}
					sa = strings.TrimPrefix(sa, "&")
					recv, field := "", sa
					if j := strings.Index(sa, "."); j >= 0 {
						recv, field = sa[:j], sa[j+1:]
					}
					pn := "?"
					if i < len(pnames) {
						pn = pnames[i]
					}
					out = append(out, pn+"|"+recv+"|"+field)
				}
			}
		}
		return true
	})
	if out == nil {
		return missing(rel + ":" + fn + ": no challenge call")
	}
	return out
}

func split3(l []string) (a, b, c []string) {
	for _, s := range l {
		p := strings.SplitN(s, "|", 3)
		for len(p) < 3 {
			p = append(p, "")
		}
		a, b, c = append(a, p[0]), append(b, p[1]), append(c, p[2])
	}
	return
}

func verifyFn(n string) string {
	if n == "sch" {
		return "Response.Verify"
	}
	return "Proof.Verify"
}

func init() {
	registerModule("ZK", func() []Fact {
		fs := []Fact{}
		for _, n := range zkSystems {
			rel := zkFile(n)
			pubS, comS, prfS := "Public", "Commitment", "Proof"
			fs = append(fs, Fact{n + "_public", "fields of " + rel + ":Public", structFieldNames(rel, pubS)})
			fs = append(fs, Fact{n + "_commitment", "fields of " + rel + ":Commitment", structFieldNames(rel, comS)})
			fs = append(fs, Fact{n + "_proof", "fields of " + rel + ":Proof", structFieldNames(rel, prfS)})
			extra := []string{pubS, comS, prfS, "Response"}
			fs = append(fs, Fact{n + "_fields", "Struct.Field type for Public, Commitment, Proof, Response of " + rel, structFieldTypes(rel, extra...)})
			prm := funcParams(rel, "challenge")
			fs = append(fs, Fact{n + "_params", "parameters of challenge() other than the hash state and the group", prm})
			pn, pt := []string{}, []string{}
			for _, p := range prm {
				kv := strings.SplitN(p, " ", 2)
				if len(kv) == 2 {
					pn, pt = append(pn, kv[0]), append(pt, kv[1])
				} else {
					pn, pt = append(pn, p), append(pt, "?")
				}
			}
			fs = append(fs, Fact{n + "_param_names", "names of these parameters", pn})
			fs = append(fs, Fact{n + "_param_types", "types of these parameters", pt})
			cp, cr, cf := split3(challengeCall(rel, verifyFn(n)))
			fs = append(fs, Fact{n + "_call_param", "Verify's call of challenge(): parameter each argument is bound to", cp})
			fs = append(fs, Fact{n + "_call_recv", "… receiver part of the argument (local aliases of public.F resolved)", cr})
			fs = append(fs, Fact{n + "_call_field", "… field part of the argument", cf})
			sel := challengeSelectors(rel)
			recv, field := splitSelectors(sel)
			fs = append(fs, Fact{n + "_sel_recv", "challenge(): receiver part of every value written into the hash, in order", recv})
			fs = append(fs, Fact{n + "_sel_field", "challenge(): field part of every value written into the hash, in order", field})
			fs = append(fs, Fact{n + "_challenge", "challenge(): values written, then how the digest is sampled",
				append(append([]string{}, sel...), callsIn(rel, "challenge", `^sample\.|ReadFull`)...)})
			fs = append(fs, Fact{n + "_ranges", "response field|range predicate for every arith.IsInInterval* call of Verify", rangeChecks(rel, verifyFn(n))})
			iv := guardsIn(rel, map[bool]string{true: "Response.IsValid", false: "Proof.IsValid"}[n == "sch"])
			if len(iv) == 1 && strings.HasPrefix(iv[0], "<<MISSING") {
				iv = []string{"<none>"} // the package has no IsValid (the obligation in MpsProps.C10 records which ones)
			}
			fs = append(fs, Fact{n + "_isvalid", "guards of IsValid", iv})
			fs = append(fs, Fact{n + "_verify", "Verify: guards, then the calls its checks are made of, in order",
				append(guardsIn(rel, verifyFn(n)), callsIn(rel, verifyFn(n), `Verify$|EncWithNonce$|Equal$|Eq$|Cmp$|IsInInterval|^challenge$|IsValid|ExpI$|Exp$|Act$|ActOnBase$|Randomize$|Mul$|Add$|ModMul$|ValidateParameters$|Jacobi$|ProbablyPrime$|IsValidBigModN$`)...)})
		}
		// shared code the verifiers and the challenge sampling rest on
		fs = append(fs,
			Fact{"mod_response_verify", "zkmod Response.Verify", append(guardsIn(zkFile("mod"), "Response.Verify"), callsIn(zkFile("mod"), "Response.Verify", `Exp$|Mul$|Mod$|Neg$|Set$|Cmp$`)...)},
			Fact{"sch_proof_verify", "zksch Proof.Verify", append(guardsIn(zkFile("sch"), "Proof.Verify"), callsIn(zkFile("sch"), "Proof.Verify", `Verify$|IsValid$`)...)},
			Fact{"sch_proof_isvalid", "zksch Proof.IsValid / Commitment.IsValid", append(guardsIn(zkFile("sch"), "Proof.IsValid"), guardsIn(zkFile("sch"), "Commitment.IsValid")...)},
			Fact{"sampleNeg", "sample.sampleNeg body, statement by statement", stmtsIn("pkg/math/sample/plus_minus.go", "sampleNeg")},
			Fact{"sampleIntervals", "which bit count each sample.Interval* passes to sampleNeg",
				func() []string {
					out := []string{}
					for _, f := range []string{"IntervalL", "IntervalLPrime", "IntervalEps", "IntervalLEps", "IntervalLPrimeEps", "IntervalLN", "IntervalLN2", "IntervalLEpsN", "IntervalLEpsN2", "IntervalLEpsRootN", "IntervalScalar"} {
						out = append(out, f+": "+strings.Join(returnsIn("pkg/math/sample/plus_minus.go", f), "; "))
					}
					return out
				}()},
			Fact{"sampleModN", "sample.ModN, statement by statement", stmtsIn("pkg/math/sample/sample.go", "ModN")},
			Fact{"sampleScalar", "sample.Scalar, statement by statement", stmtsIn("pkg/math/sample/sample.go", "Scalar")},
			Fact{"mustReadBits", "sample.mustReadBits, statement by statement", stmtsIn("pkg/math/sample/sample.go", "mustReadBits")},
			Fact{"prmChallenge", "zkprm challenge(), statement by statement", stmtsIn(zkFile("prm"), "challenge")},
			Fact{"modChallenge", "zkmod challenge(), statement by statement", stmtsIn(zkFile("mod"), "challenge")},
			Fact{"curveScalarSizes", "secp256k1 ScalarBits / SafeScalarBytes", append(returnsIn("pkg/math/curve/secp256k1.go", "Secp256k1.ScalarBits"), returnsIn("pkg/math/curve/secp256k1.go", "Secp256k1.SafeScalarBytes")...)},
			Fact{"rangePredicates", "what every arith.IsInInterval* returns",
				func() []string {
					out := []string{}
					for _, f := range []string{"IsInIntervalLEps", "IsInIntervalLPrimeEps", "IsInIntervalLEpsPlus1RootN"} {
						out = append(out, f+": "+strings.Join(returnsIn("pkg/math/arith/int.go", f), "; "))
					}
					return out
				}()},
			Fact{"isValidNatModN", "arith.IsValidNatModN", guardsIn("pkg/math/arith/int.go", "IsValidNatModN")},
			Fact{"isValidBigModN", "arith.IsValidBigModN", guardsIn("pkg/math/arith/int.go", "IsValidBigModN")},
			Fact{"pedersenVerify", "pedersen.Parameters.Verify", append(guardsIn("pkg/pedersen/pedersen.go", "Parameters.Verify"), callsIn("pkg/pedersen/pedersen.go", "Parameters.Verify", `ExpI$|ModMul$|Eq$`)...)},
			Fact{"pedersenValidate", "pedersen.ValidateParameters", guardsIn("pkg/pedersen/pedersen.go", "ValidateParameters")},
			Fact{"paillierEncWithNonce", "paillier.PublicKey.EncWithNonce", append(guardsIn("pkg/paillier/public.go", "PublicKey.EncWithNonce"), callsIn("pkg/paillier/public.go", "PublicKey.EncWithNonce", `ExpI$|Exp$|ModMul$|Rsh$|Cmp$|panic`)...)},
			Fact{"paillierValidateCiphertexts", "paillier.PublicKey.ValidateCiphertexts", guardsIn("pkg/paillier/public.go", "PublicKey.ValidateCiphertexts")},
			Fact{"ciphertextOps", "paillier.Ciphertext Add / Mul / Randomize / Equal",
				func() []string {
					out := []string{}
					for _, f := range []string{"Add", "Mul", "Randomize", "Equal"} {
						out = append(out, f+": "+strings.Join(append(guardsIn("pkg/paillier/ciphertext.go", "Ciphertext."+f), callsIn("pkg/paillier/ciphertext.go", "Ciphertext."+f, `ExpI$|Exp$|ModMul$|Eq$`)...), "; "))
					}
					return out
				}()},
			Fact{"params", "internal/params constants", constsIn("internal/params/params.go")},
		)
		return fs
	})
}
