package main

import (
	"go/ast"
	"go/token"
	"strconv"
)

// Fact tables of property C12 (Paillier / MtA): the bodies of the functions the Lean model
// `Mps.Paillier` transcribes, statement by statement, and the evaluated constants of internal/params.

// bodyOf: every top-level statement of fn's body, printed (whitespace-normalised), in order.
// Any edit of the function changes the table, hence breaks the `gen_*` obligation stated over it.
func bodyOf(rel, fn string) []string {
	fd := findFunc(rel, fn)
	if fd == nil || fd.Body == nil {
		return missing(rel + ":" + fn)
	}
	out := []string{}
	for _, s := range fd.Body.List {
		out = append(out, src(s))
	}
	return out
}

// constValues: "name = value" for every integer constant of rel, with the value EVALUATED
// (identifiers resolved within the file; + - * / and parentheses).
func constValues(rel string) []string {
	f := parseFile(rel)
	if f == nil {
		return missing(rel)
	}
	env := map[string]int64{}
	var eval func(e ast.Expr) (int64, bool)
	eval = func(e ast.Expr) (int64, bool) {
		switch x := e.(type) {
		case *ast.BasicLit:
			if x.Kind != token.INT {
				return 0, false
			}
			v, err := strconv.ParseInt(x.Value, 0, 64)
			return v, err == nil
		case *ast.Ident:
			v, ok := env[x.Name]
			return v, ok
		case *ast.ParenExpr:
			return eval(x.X)
		case *ast.BinaryExpr:
			a, ok1 := eval(x.X)
			b, ok2 := eval(x.Y)
			if !ok1 || !ok2 {
				return 0, false
			}
			switch x.Op {
			case token.ADD:
				return a + b, true
			case token.SUB:
				return a - b, true
			case token.MUL:
				return a * b, true
			case token.QUO:
				if b == 0 {
					return 0, false
				}
				return a / b, true
			}
		}
		return 0, false
	}
	out := []string{}
	for _, d := range f.Decls {
		gd, ok := d.(*ast.GenDecl)
		if !ok || gd.Tok != token.CONST {
			continue
		}
		for _, s := range gd.Specs {
			vs := s.(*ast.ValueSpec)
			for i, nm := range vs.Names {
				if i >= len(vs.Values) {
					continue
				}
				v, ok := eval(vs.Values[i])
				if !ok {
					out = append(out, nm.Name+" = <<UNEVALUATED: "+src(vs.Values[i])+">>")
					continue
				}
				env[nm.Name] = v
				out = append(out, nm.Name+" = "+strconv.FormatInt(v, 10))
			}
		}
	}
	return out
}

func init() {
	registerModule("Paillier", func() []Fact {
		return []Fact{
			{"paramValues", "internal/params: every constant, evaluated", constValues("internal/params/params.go")},
			{"modulusFromFactors", "arith.ModulusFromFactors", bodyOf("pkg/math/arith/modulus.go", "ModulusFromFactors")},
			{"modulusExp", "arith.Modulus.Exp", bodyOf("pkg/math/arith/modulus.go", "Modulus.Exp")},
			{"modulusExpI", "arith.Modulus.ExpI", bodyOf("pkg/math/arith/modulus.go", "Modulus.ExpI")},
			{"hasFactorization", "arith.Modulus.hasFactorization", bodyOf("pkg/math/arith/modulus.go", "Modulus.hasFactorization")},
			{"newPublicKey", "paillier.NewPublicKey", bodyOf("pkg/paillier/public.go", "NewPublicKey")},
			{"validateN", "paillier.ValidateN", bodyOf("pkg/paillier/public.go", "ValidateN")},
			{"encWithNonce", "PublicKey.EncWithNonce", bodyOf("pkg/paillier/public.go", "PublicKey.EncWithNonce")},
			{"enc", "PublicKey.Enc", bodyOf("pkg/paillier/public.go", "PublicKey.Enc")},
			{"validateCiphertexts", "PublicKey.ValidateCiphertexts", bodyOf("pkg/paillier/public.go", "PublicKey.ValidateCiphertexts")},
			{"newSecretKeyFromPrimes", "paillier.NewSecretKeyFromPrimes", bodyOf("pkg/paillier/secret.go", "NewSecretKeyFromPrimes")},
			{"dec", "SecretKey.Dec", bodyOf("pkg/paillier/secret.go", "SecretKey.Dec")},
			{"decWithRandomness", "SecretKey.DecWithRandomness", bodyOf("pkg/paillier/secret.go", "SecretKey.DecWithRandomness")},
			{"ctAdd", "Ciphertext.Add", bodyOf("pkg/paillier/ciphertext.go", "Ciphertext.Add")},
			{"ctMul", "Ciphertext.Mul", bodyOf("pkg/paillier/ciphertext.go", "Ciphertext.Mul")},
			{"newMta", "mta.newMta", bodyOf("internal/mta/mta.go", "newMta")},
			{"proveAffGBeta", "mta.ProveAffG: use of newMta and the sign of Beta", callsIn("internal/mta/mta.go", "ProveAffG", `newMta|Neg`)},
			{"proveAffPBeta", "mta.ProveAffP: use of newMta and the sign of Beta", callsIn("internal/mta/mta.go", "ProveAffP", `newMta|Neg`)},
			{"sampleNeg", "sample.sampleNeg", bodyOf("pkg/math/sample/plus_minus.go", "sampleNeg")},
			{"intervalLPrime", "sample.IntervalLPrime", bodyOf("pkg/math/sample/plus_minus.go", "IntervalLPrime")},
			{"makeInt", "curve.MakeInt", bodyOf("pkg/math/curve/curve.go", "MakeInt")},
		}
	})
}
