package main

import (
	"crypto/sha256"
	"encoding/hex"
	"go/ast"
	"go/token"
	"os"
	"path/filepath"
	"sort"
	"strings"
)

// Whole-source pins of the protocol round files. The real rounds are not transcribed into Lean function by function: the
// Lean side holds the algebra they compute (Mps.Algebra, generated formula tables) and judges complete real sessions. These
// tables record the exact source the judged sessions were last validated against: an edit of any round - also a harmless one -
// breaks the obligation of the properties that rest on those sessions and widens their directed search (bin/mkroundpins
// re-pins after the suites have been looked at again).

// fileFuncs: every function of a file as one line "name sha256-prefix", the digest taken over the function's signature and
// its funcLines (statement text in source order): short enough for a kernel `decide`, and a failing obligation shows which
// function changed. The full line lists stay available through `funcLines` for the functions that are transcribed.
func fileFuncs(rel string) []string {
	f := parseFile(rel)
	if f == nil {
		return missing(rel)
	}
	out := []string{}
	for _, d := range f.Decls {
		if gd, isGen := d.(*ast.GenDecl); isGen {
			// type, const and var declarations (struct fields and tags, constants, tables): digest of the declaration text
			if gd.Tok == token.IMPORT {
				continue
			}
			h := sha256.Sum256([]byte(srcNoComments(gd)))
			out = append(out, "decl:"+genDeclNames(gd)+" "+hex.EncodeToString(h[:])[:24])
			continue
		}
		fd, ok := d.(*ast.FuncDecl)
		if !ok || fd.Body == nil {
			continue
		}
		name := fd.Name.Name
		if r := recvName(fd); r != "" {
			name = r + "." + name
		}
		h := sha256.New()
		h.Write([]byte(src(fd.Type)))
		for _, l := range funcLines(rel, name) {
			h.Write([]byte{0})
			h.Write([]byte(l))
		}
		out = append(out, name+" "+hex.EncodeToString(h.Sum(nil))[:24])
	}
	return out
}

// srcNoComments: the text of a declaration without its doc and line comments (a comment edit is not a code edit)
func srcNoComments(gd *ast.GenDecl) string {
	type saved struct {
		p **ast.CommentGroup
		v *ast.CommentGroup
	}
	var undo []saved
	drop := func(p **ast.CommentGroup) {
		if *p != nil {
			undo = append(undo, saved{p, *p})
			*p = nil
		}
	}
	ast.Inspect(gd, func(n ast.Node) bool {
		switch x := n.(type) {
		case *ast.GenDecl:
			drop(&x.Doc)
		case *ast.TypeSpec:
			drop(&x.Doc)
			drop(&x.Comment)
		case *ast.ValueSpec:
			drop(&x.Doc)
			drop(&x.Comment)
		case *ast.Field:
			drop(&x.Doc)
			drop(&x.Comment)
		}
		return true
	})
	out := src(gd)
	for _, u := range undo {
		*u.p = u.v
	}
	return out
}

// genDeclNames: the names a type / const / var declaration introduces, joined by ","
func genDeclNames(gd *ast.GenDecl) string {
	names := []string{}
	for _, sp := range gd.Specs {
		switch x := sp.(type) {
		case *ast.TypeSpec:
			names = append(names, x.Name.Name)
		case *ast.ValueSpec:
			for _, n := range x.Names {
				names = append(names, n.Name)
			}
		}
	}
	return strings.Join(names, ",")
}

// dirFiles: the non-test Go files of a directory of the repository, sorted
func dirFiles(dir string) []string {
	ents, err := os.ReadDir(filepath.Join(repo, dir))
	if err != nil {
		return nil
	}
	out := []string{}
	for _, e := range ents {
		n := e.Name()
		if e.IsDir() || !strings.HasSuffix(n, ".go") || strings.HasSuffix(n, "_test.go") || strings.HasPrefix(n, "zz_verif") {
			continue
		}
		out = append(out, filepath.Join(dir, n))
	}
	sort.Strings(out)
	return out
}

// libModName: "pkg/zk/affg" -> "SrcLPkgZkAffg"
func libModName(dir string) string {
	out := "SrcL"
	for _, part := range strings.Split(dir, "/") {
		out += strings.ToUpper(part[:1]) + part[1:]
	}
	return out
}

func init() {
	dirs := map[string]string{
		"SrcCmpKeygen":     "protocols/cmp/keygen",
		"SrcCmpSign":       "protocols/cmp/sign",
		"SrcCmpPresign":    "protocols/cmp/presign",
		"SrcCmpConfig":     "protocols/cmp/config",
		"SrcFrostKeygen":   "protocols/frost/keygen",
		"SrcFrostSign":     "protocols/frost/sign",
		"SrcDoernerKeygen": "protocols/doerner/keygen",
		"SrcDoernerSign":   "protocols/doerner/sign",
	}
	// the library packages: the same pins, one module per directory. A property lists the files its anchors name
	// (bin/props.py reads them from properties.jsonl), so an edit of anchored code that the transcribed tables do not
	// see still breaks an obligation of that property and widens its directed search.
	for _, dir := range []string{
		"internal/bip32", "internal/elgamal", "internal/mta", "internal/ot", "internal/params", "internal/round",
		"internal/safecbor", "internal/types", "pkg/ecdsa", "pkg/hash", "pkg/math/arith", "pkg/math/curve",
		"pkg/math/polynomial", "pkg/math/sample", "pkg/paillier", "pkg/party", "pkg/pedersen", "pkg/pool", "pkg/protocol",
		"pkg/taproot", "pkg/zk", "pkg/zk/affg", "pkg/zk/affp", "pkg/zk/dec", "pkg/zk/elog", "pkg/zk/enc", "pkg/zk/encelg",
		"pkg/zk/fac", "pkg/zk/log", "pkg/zk/logstar", "pkg/zk/mod", "pkg/zk/mul", "pkg/zk/mulstar", "pkg/zk/nth",
		"pkg/zk/prm", "pkg/zk/sch", "protocols/cmp", "protocols/doerner", "protocols/frost",
	} {
		dirs[libModName(dir)] = dir
	}
	for mod, dir := range dirs {
		mod, dir := mod, dir
		registerModule(mod, func() []Fact {
			facts := []Fact{}
			names := []string{}
			for _, rel := range dirFiles(dir) {
				base := strings.TrimSuffix(filepath.Base(rel), ".go")
				id := "f_" + strings.Map(func(r rune) rune {
					if (r >= 'a' && r <= 'z') || (r >= 'A' && r <= 'Z') || (r >= '0' && r <= '9') {
						return r
					}
					return '_'
				}, base)
				names = append(names, id)
				facts = append(facts, Fact{id, rel, fileFuncs(rel)})
			}
			facts = append(facts, Fact{"files", "the files of " + dir, names})
			return facts
		})
	}
}
