package main

import (
	"crypto/sha256"
	"encoding/hex"
	"go/ast"
	"os"
	"path/filepath"
	"sort"
	"strings"
)

// Whole-source pins of the protocol round files. The real rounds are not transcribed into Lean function by function: the
// Lean side holds the algebra they compute (Mps.Algebra, generated formula tables) and judges complete real sessions. These
// tables record the exact source the judged sessions were last validated against: an edit of any round - also a harmless one -
// breaks the obligation of the properties that rest on those sessions and widens their directed search (bin/mkroundpins
// re-pins after the suites have been looked at again).

// fileFuncs: every function of a file as one line "name sha256-prefix", the digest taken over the function's signature and
// its funcLines (statement text in source order): short enough for a kernel `decide`, and a failing obligation shows which
// function changed. The full line lists stay available through `funcLines` for the functions that are transcribed.
func fileFuncs(rel string) []string {
	f := parseFile(rel)
	if f == nil {
		return missing(rel)
	}
	out := []string{}
	for _, d := range f.Decls {
		fd, ok := d.(*ast.FuncDecl)
		if !ok || fd.Body == nil {
			continue
		}
		name := fd.Name.Name
		if r := recvName(fd); r != "" {
			name = r + "." + name
		}
		h := sha256.New()
		h.Write([]byte(src(fd.Type)))
		for _, l := range funcLines(rel, name) {
			h.Write([]byte{0})
			h.Write([]byte(l))
		}
		out = append(out, name+" "+hex.EncodeToString(h.Sum(nil))[:24])
	}
	return out
}

// dirFiles: the non-test Go files of a directory of the repository, sorted
func dirFiles(dir string) []string {
	ents, err := os.ReadDir(filepath.Join(repo, dir))
	if err != nil {
		return nil
	}
	out := []string{}
	for _, e := range ents {
		n := e.Name()
		if e.IsDir() || !strings.HasSuffix(n, ".go") || strings.HasSuffix(n, "_test.go") || strings.HasPrefix(n, "zz_verif") {
			continue
		}
		out = append(out, filepath.Join(dir, n))
	}
	sort.Strings(out)
	return out
}

func init() {
	dirs := map[string]string{
		"SrcCmpKeygen":     "protocols/cmp/keygen",
		"SrcCmpSign":       "protocols/cmp/sign",
		"SrcCmpPresign":    "protocols/cmp/presign",
		"SrcCmpConfig":     "protocols/cmp/config",
		"SrcFrostKeygen":   "protocols/frost/keygen",
		"SrcFrostSign":     "protocols/frost/sign",
		"SrcDoernerKeygen": "protocols/doerner/keygen",
		"SrcDoernerSign":   "protocols/doerner/sign",
	}
	for mod, dir := range dirs {
		mod, dir := mod, dir
		registerModule(mod, func() []Fact {
			facts := []Fact{}
			names := []string{}
			for _, rel := range dirFiles(dir) {
				base := strings.TrimSuffix(filepath.Base(rel), ".go")
				id := "f_" + strings.Map(func(r rune) rune {
					if (r >= 'a' && r <= 'z') || (r >= 'A' && r <= 'Z') || (r >= '0' && r <= '9') {
						return r
					}
					return '_'
				}, base)
				names = append(names, id)
				facts = append(facts, Fact{id, rel, fileFuncs(rel)})
			}
			facts = append(facts, Fact{"files", "the files of " + dir, names})
			return facts
		})
	}
}
