package main

import (
	"go/ast"
	"regexp"
)

// Fact tables for C16 (stand-alone signature primitives) and C11 (nonce derivation).
func init() {
	const secp = "pkg/math/curve/secp256k1.go"
	const tap = "pkg/taproot/signature.go"
	const ecd = "pkg/ecdsa/signature.go"
	const r1 = "protocols/frost/sign/round1.go"
	const smp = "pkg/math/sample/sample.go"
	registerModule("Sig", func() []Fact {
		return []Fact{
			{"pointUnmarshal", "Secp256k1Point.UnmarshalBinary: refusal conditions, then the decoding calls",
				append(guardsIn(secp, "Secp256k1Point.UnmarshalBinary"), callsIn(secp, "Secp256k1Point.UnmarshalBinary", `SetByteSlice|DecompressY|SetInt`)...)},
			{"pointMarshal", "Secp256k1Point.MarshalBinary", callsIn(secp, "Secp256k1Point.MarshalBinary", `make|ToAffine|IsOddBit|Bytes|copy`)},
			{"scalarUnmarshal", "Secp256k1Scalar.UnmarshalBinary: refusal conditions",
				append(guardsIn(secp, "Secp256k1Scalar.UnmarshalBinary"), callsIn(secp, "Secp256k1Scalar.UnmarshalBinary", `SetBytes`)...)},
			{"liftX", "Secp256k1.LiftX", append(guardsIn(secp, "Secp256k1.LiftX"), callsIn(secp, "Secp256k1.LiftX", `SetByteSlice|DecompressY|SetInt`)...)},
			{"xScalar", "Secp256k1Point.XScalar", callsIn(secp, "Secp256k1Point.XScalar", `ToAffine|SetBytes|Bytes`)},
			{"hasEvenY", "Secp256k1Point.HasEvenY", append(callsIn(secp, "Secp256k1Point.HasEvenY", `ToAffine|IsOdd`), returnsIn(secp, "Secp256k1Point.HasEvenY")...)},
			{"isIdentity", "Secp256k1Point.IsIdentity", returnsIn(secp, "Secp256k1Point.IsIdentity")},
			{"fromHash", "curve.FromHash: calls with their guards", callsIn("pkg/math/curve/curve.go", "FromHash", `Order|BitLen|SetBytes|Rsh|SetNat|len`)},
			{"ecdsaVerify", "ecdsa.Signature.Verify: refusal conditions, calls in order, result",
				append(append(guardsIn(ecd, "Signature.Verify"), callsIn(ecd, "Signature.Verify", `XScalar|FromHash|Invert|ActOnBase|\.Act$|\.Add$|Equal`)...), returnsIn(ecd, "Signature.Verify")...)},
			{"sigEthereum", "ecdsa.Signature.SigEthereum: calls with their guards",
				callsIn(ecd, "Signature.SigEthereum", `IsOverHalfOrder|Negate|MarshalBinary|UnmarshalBinary|make|append|copy`)},
			{"sigEthereumAssigns", "SigEthereum: how v, rs[64] and r[0] are computed", assignsIn(ecd, "Signature.SigEthereum", `^(v|rs\[64\]|r\[0\])$`)},
			{"sigEthereumReceiver", "SigEthereum has a value receiver over interface fields (the caller's R and S are mutated)", recvAndFields(ecd, "SigEthereum", "Signature")},
			{"taggedHash", "taproot.TaggedHash: what is hashed", callsIn(tap, "TaggedHash", `Sum256|sha256\.New|Write|Sum`)},
			{"taprootSign", "taproot.SecretKey.Sign: calls in order with their guards",
				callsIn(tap, "SecretKey.Sign", `UnmarshalBinary|IsZero|ActOnBase|XBytes|HasEvenY|Negate|ReadFull|AddUint64|PutUint64|MarshalBinary|TaggedHash|\.Mul$|\.Add$|make`)},
			{"taprootSignHashes", "taproot.SecretKey.Sign: the argument lists of the TaggedHash calls", allCallArgs(tap, "SecretKey.Sign", `^TaggedHash$`)},
			{"taprootVerify", "taproot.PublicKey.Verify: refusal conditions, calls, result",
				append(append(guardsIn(tap, "PublicKey.Verify"), callsIn(tap, "PublicKey.Verify", `LiftX|UnmarshalBinary|ActOnBase|\.Sub$|\.Act$|IsIdentity|HasEvenY|Equal|XBytes`)...), returnsIn(tap, "PublicKey.Verify")...)},
			{"taprootVerifyHashes", "taproot.PublicKey.Verify: the argument list of the TaggedHash call", allCallArgs(tap, "PublicKey.Verify", `^TaggedHash$`)},
			{"taprootPublic", "taproot.SecretKey.Public", append(guardsIn(tap, "SecretKey.Public"), callsIn(tap, "SecretKey.Public", `UnmarshalBinary|IsZero|ActOnBase|XBytes`)...)},
			{"taprootConsts", "constants of pkg/taproot/signature.go", constsIn(tap)},
		}
	})
	registerModule("Nonce", func() []Fact {
		return []Fact{
			{"frostRound1", "frost sign round1.Finalize: the nonce derivation, calls in order",
				callsIn(r1, "round1.Finalize", `MarshalBinary|make|DeriveKey|NewKeyed|nonceHasher\.Write|\.Sum$|\.Hash$|rand\.Read|Digest|ScalarUnit|ActOnBase`)},
			{"frostRound1Consts", "constants of protocols/frost/sign/round1.go", constsIn(r1)},
			{"frostSignConsts", "constants of protocols/frost/sign/sign.go", constsIn("protocols/frost/sign/sign.go")},
			{"frostSignInfo", "sign.StartSignCommon: session parameters", append(compositesIn("protocols/frost/sign/sign.go", "StartSignCommon", `^round\.Info$`),
				callsIn("protocols/frost/sign/sign.go", "StartSignCommon", `NewSession`)...)},
			{"frostSignProtocolID", "sign.StartSignCommon: choice of the protocol id", assignsIn("protocols/frost/sign/sign.go", "StartSignCommon", `info\.ProtocolID`)},
			{"sampleScalar", "sample.Scalar", callsIn(smp, "Scalar", `make|SafeScalarBytes|mustReadBits|SetBytes|SetNat`)},
			{"sampleScalarUnit", "sample.ScalarUnit", append(callsIn(smp, "ScalarUnit", `^Scalar$|IsZero|panic`), forHeaders(smp, "ScalarUnit")...)},
			{"sampleConsts", "constants of pkg/math/sample/sample.go", constsIn(smp)},
			{"safeScalarBytes", "Secp256k1.SafeScalarBytes", returnsIn(secp, "Secp256k1.SafeScalarBytes")},
			{"setNat", "Secp256k1Scalar.SetNat", callsIn(secp, "Secp256k1Scalar.SetNat", `Mod|SetByteSlice|Bytes`)},
		}
	})
}

// recvAndFields: "recv <printed receiver>" of method fn, then the fields of struct typ.
func recvAndFields(rel, fn, typ string) []string {
	f := parseFile(rel)
	if f == nil {
		return missing(rel)
	}
	for _, d := range f.Decls {
		if fd, ok := d.(*ast.FuncDecl); ok && fd.Name.Name == fn && fd.Recv != nil && len(fd.Recv.List) > 0 {
			return append([]string{"recv " + src(fd.Recv.List[0].Type)}, structFields(rel, typ)...)
		}
	}
	return missing(rel + ":" + fn)
}

// assignsIn: printed assignment statements of fn whose left side matches re, with enclosing if-conditions.
func assignsIn(rel, fn, re string) []string {
	fd := findFunc(rel, fn)
	if fd == nil || fd.Body == nil {
		return missing(rel + ":" + fn)
	}
	rx := regexp.MustCompile(re)
	out := []string{}
	var walk func(n ast.Node, conds []string)
	walk = func(n ast.Node, conds []string) {
		switch x := n.(type) {
		case nil:
			return
		case *ast.IfStmt:
			c2 := append(append([]string{}, conds...), src(x.Cond))
			walk(x.Body, c2)
			if x.Else != nil {
				walk(x.Else, append(append([]string{}, conds...), "else"))
			}
			return
		case *ast.AssignStmt:
			if len(x.Lhs) > 0 && rx.MatchString(src(x.Lhs[0])) {
				p := ""
				for _, c := range conds {
					p += "if " + c + ": "
				}
				out = append(out, p+src(x))
			}
		}
		ast.Inspect(n, func(m ast.Node) bool {
			if m == n || m == nil {
				return true
			}
			walk(m, conds)
			return false
		})
	}
	walk(fd.Body, nil)
	return out
}

// forHeaders: "for <init>; <cond>; <post>" of every for statement in fn.
func forHeaders(rel, fn string) []string {
	fd := findFunc(rel, fn)
	if fd == nil || fd.Body == nil {
		return missing(rel + ":" + fn)
	}
	out := []string{}
	ast.Inspect(fd.Body, func(n ast.Node) bool {
		if f, ok := n.(*ast.ForStmt); ok {
			s := "for "
			if f.Init != nil {
				s += src(f.Init)
			}
			s += "; "
			if f.Cond != nil {
				s += src(f.Cond)
			}
			s += "; "
			if f.Post != nil {
				s += src(f.Post)
			}
			out = append(out, s)
		}
		return true
	})
	return out
}
