package main

// Whole-function source pins of the two handlers (pkg/protocol/handler.go, twoparty.go, message.go): the Lean models
// Mps.Handler / Mps.TwoParty are transcriptions of exactly these functions, validated against them by the suites
// handler / twoparty. Any edit of one of them - also a harmless one - changes its line list and breaks the obligation
// MpsProps.HandlerSrc.gen_handler_source until the transcription has been looked at again (bin/mkhandlerpins).
func init() {
	registerModule("HandlerSrc", func() []Fact {
		h, t, m := "pkg/protocol/handler.go", "pkg/protocol/twoparty.go", "pkg/protocol/message.go"
		fl := func(name, rel, fn string) Fact { return Fact{name, rel + " " + fn, funcLines(rel, fn)} }
		return []Fact{
			fl("mhNew", h, "NewMultiHandler"), fl("mhResult", h, "MultiHandler.Result"), fl("mhListen", h, "MultiHandler.Listen"),
			fl("mhCanAccept", h, "MultiHandler.CanAccept"), fl("mhCanAcceptInner", h, "MultiHandler.canAccept"),
			fl("mhAccept", h, "MultiHandler.Accept"), fl("mhAbortVerification", h, "MultiHandler.abortVerification"),
			fl("mhSameBroadcastView", h, "MultiHandler.sameBroadcastView"),
			fl("mhVerifyBroadcastMessage", h, "MultiHandler.verifyBroadcastMessage"), fl("mhVerifyMessage", h, "MultiHandler.verifyMessage"),
			fl("mhFinalize", h, "MultiHandler.finalize"), fl("mhAbort", h, "MultiHandler.abort"), fl("mhStop", h, "MultiHandler.Stop"),
			fl("mhExpectsNormalMessage", h, "expectsNormalMessage"), fl("mhReceivedAll", h, "MultiHandler.receivedAll"),
			fl("mhDuplicate", h, "MultiHandler.duplicate"), fl("mhStore", h, "MultiHandler.store"),
			fl("mhGetRoundMessage", h, "getRoundMessage"), fl("mhCheckBroadcastHash", h, "MultiHandler.checkBroadcastHash"),
			fl("mhNewQueue", h, "newQueue"),
			fl("tpNew", t, "NewTwoPartyHandler"), fl("tpResult", t, "TwoPartyHandler.Result"), fl("tpListen", t, "TwoPartyHandler.Listen"),
			fl("tpStop", t, "TwoPartyHandler.Stop"), fl("tpAbort", t, "TwoPartyHandler.abort"), fl("tpCanAdvance", t, "TwoPartyHandler.canAdvance"),
			fl("tpExtractRoundMessage", t, "extractRoundMessage"), fl("tpVerifyMessage", t, "TwoPartyHandler.verifyMessage"),
			fl("tpAdvance", t, "TwoPartyHandler.advance"), fl("tpCanAccept", t, "TwoPartyHandler.CanAccept"),
			fl("tpCanAcceptInner", t, "TwoPartyHandler.canAccept"), fl("tpAccept", t, "TwoPartyHandler.Accept"),
			fl("msgIsFor", m, "Message.IsFor"), fl("msgHash", m, "Message.Hash"),
		}
	})
}
