package main

import (
	"go/ast"
	"strings"
)

// funcLines: the statements of fn as text, in source order: simple statements are printed as they
// are, control statements contribute a header line ("for i := 0; i < l; i++ {", "if c {", "} else {")
// and a closing "}". Any edit of the function changes the list, i.e. breaks the Lean obligation
// that pins the transcription to this exact text.
func funcLines(rel, fn string) []string {
	fd := findFunc(rel, fn)
	if fd == nil || fd.Body == nil {
		return missing(rel + ":" + fn)
	}
	out := []string{}
	var walkBlock func(b *ast.BlockStmt)
	var walk func(s ast.Stmt)
	walk = func(s ast.Stmt) {
		switch x := s.(type) {
		case *ast.BlockStmt:
			out = append(out, "{")
			walkBlock(x)
			out = append(out, "}")
		case *ast.IfStmt:
			h := "if "
			if x.Init != nil {
				h += src(x.Init) + "; "
			}
			out = append(out, h+src(x.Cond)+" {")
			walkBlock(x.Body)
			for x.Else != nil {
				if ei, ok := x.Else.(*ast.IfStmt); ok {
					h := "} else if "
					if ei.Init != nil {
						h += src(ei.Init) + "; "
					}
					out = append(out, h+src(ei.Cond)+" {")
					walkBlock(ei.Body)
					x = ei
					continue
				}
				out = append(out, "} else {")
				walkBlock(x.Else.(*ast.BlockStmt))
				break
			}
			out = append(out, "}")
		case *ast.ForStmt:
			parts := []string{"", "", ""}
			if x.Init != nil {
				parts[0] = src(x.Init)
			}
			if x.Cond != nil {
				parts[1] = src(x.Cond)
			}
			if x.Post != nil {
				parts[2] = src(x.Post)
			}
			out = append(out, "for "+strings.Join(parts, "; ")+" {")
			walkBlock(x.Body)
			out = append(out, "}")
		case *ast.RangeStmt:
			k, v := "_", "_"
			if x.Key != nil {
				k = src(x.Key)
			}
			if x.Value != nil {
				v = src(x.Value)
			}
			out = append(out, "for "+k+", "+v+" := range "+src(x.X)+" {")
			walkBlock(x.Body)
			out = append(out, "}")
		default:
			out = append(out, src(s))
		}
	}
	walkBlock = func(b *ast.BlockStmt) {
		for _, s := range b.List {
			walk(s)
		}
	}
	walkBlock(fd.Body)
	return out
}

func concat(ls ...[]string) []string {
	out := []string{}
	for _, l := range ls {
		out = append(out, l...)
	}
	return out
}

func init() {
	registerModule("OT", func() []Fact {
		const (
			bits = "internal/ot/bits.go"
			rnd  = "internal/ot/random.go"
			cor  = "internal/ot/correlated.go"
			ext  = "internal/ot/extended.go"
			add  = "internal/ot/additive.go"
			mul  = "internal/ot/multiply.go"
		)
		return []Fact{
			{"params", "internal/params constants (OTParam, OTBytes, StatParam are the ones the OT model fixes)", constsIn("internal/params/params.go")},
			{"extConsts", "constants of extended.go (fieldElementLen)", constsIn(ext)},
			{"bitAt", "bits.go bitAt", funcLines(bits, "bitAt")},
			{"transposeBits", "correlated.go transposeBits", funcLines(cor, "transposeBits")},
			{"shl1", "extended.go fieldElement.shl1", funcLines(ext, "fieldElement.shl1")},
			{"accumulate", "extended.go fieldElement.accumulate", funcLines(ext, "fieldElement.accumulate")},
			{"rotSetupSend", "random.go RandomOTSetupSend", funcLines(rnd, "RandomOTSetupSend")},
			{"rotRecvRound1", "random.go RandomOTReceiever.Round1", funcLines(rnd, "RandomOTReceiever.Round1")},
			{"rotRecvRound2", "random.go RandomOTReceiever.Round2", funcLines(rnd, "RandomOTReceiever.Round2")},
			{"rotRecvRound3", "random.go RandomOTReceiever.Round3", funcLines(rnd, "RandomOTReceiever.Round3")},
			{"rotSendRound1", "random.go RandomOTSender.Round1", funcLines(rnd, "RandomOTSender.Round1")},
			{"rotSendRound2", "random.go RandomOTSender.Round2", funcLines(rnd, "RandomOTSender.Round2")},
			{"correSetupSenderRound1", "correlated.go CorreOTSetupSender.Round1 (nonces, choice bits = bits of Delta)", funcLines(cor, "CorreOTSetupSender.Round1")},
			{"correSetupSenderRound3", "correlated.go CorreOTSetupSender.Round3", funcLines(cor, "CorreOTSetupSender.Round3")},
			{"correSetupReceiverRound3", "correlated.go CorreOTSetupReceiver.Round3", funcLines(cor, "CorreOTSetupReceiver.Round3")},
			{"correSend", "correlated.go CorreOTSend", funcLines(cor, "CorreOTSend")},
			{"correReceive", "correlated.go CorreOTReceive", funcLines(cor, "CorreOTReceive")},
			{"extSend", "extended.go ExtendedOTSend", funcLines(ext, "ExtendedOTSend")},
			{"extReceive", "extended.go ExtendedOTReceive", funcLines(ext, "ExtendedOTReceive")},
			{"additiveSend", "additive.go AdditiveOTSender.Round1", funcLines(add, "AdditiveOTSender.Round1")},
			{"additiveRecv", "additive.go AdditiveOTReceiver.Round2", funcLines(add, "AdditiveOTReceiver.Round2")},
			{"scalarBytes", "multiply.go scalarBytes", funcLines(mul, "scalarBytes")},
			{"encode", "multiply.go encode", funcLines(mul, "encode")},
			{"makeGadget", "multiply.go makeGadget", funcLines(mul, "makeGadget")},
			{"newMultiplySender", "multiply.go NewMultiplySender", funcLines(mul, "NewMultiplySender")},
			{"newMultiplyReceiver", "multiply.go NewMultiplyReceiver", funcLines(mul, "NewMultiplyReceiver")},
			{"mulSendRound1", "multiply.go MultiplySender.Round1 (shares, RCheck, UCheck)", funcLines(mul, "MultiplySender.Round1")},
			{"mulRecvRound2", "multiply.go MultiplyReceiver.Round2 (integrity check, share)", funcLines(mul, "MultiplyReceiver.Round2")},
			{"forkDomains", "every hash.BytesWithDomain literal of package ot (the domain strings of the PRG key, the nonces, the gadget and the chi sampling)", concat(
				compositesIn(cor, "CorreOTSetupSender.Round1", `hash\.BytesWithDomain`),
				compositesIn(cor, "CorreOTSetupReceiver.Round1", `hash\.BytesWithDomain`),
				compositesIn(cor, "CorreOTSend", `hash\.BytesWithDomain`),
				compositesIn(cor, "CorreOTReceive", `hash\.BytesWithDomain`),
				compositesIn(mul, "makeGadget", `hash\.BytesWithDomain`),
				compositesIn(mul, "MultiplySender.Round1", `hash\.BytesWithDomain`),
				compositesIn(mul, "MultiplyReceiver.Round2", `hash\.BytesWithDomain`))},
			{"bwdWriteTo", "hash.BytesWithDomain.WriteTo: refuses nil bytes", funcLines("pkg/hash/writerto.go", "BytesWithDomain.WriteTo")},
			{"fork", "hash.Hash.Fork: the error of WriteAny is dropped", funcLines("pkg/hash/hash.go", "Hash.Fork")},
			{"sampleScalar", "sample.Scalar", funcLines("pkg/math/sample/sample.go", "Scalar")},
			{"schChallenge", "zk/sch challenge: what the Schnorr proof of the setup writes into the shared hash", funcLines("pkg/zk/sch/sch.go", "challenge")},
		}
	})
}
