package main

// Guard tables of the start functions (C20): for every start function the conditions under which it
// returns early, in source order (closures included). lean/Mps/Drv/Start.lean `currentCode` reads off
// them which groups of guards the tree contains; MpsProps/C20.lean pins the tables (`gen_*`).
func init() {
	registerModule("Start", func() []Fact {
		g := guardsIn
		return []Fact{
			{"cmpKeygenStart", "cmp keygen.Start (Keygen and Refresh)", g("protocols/cmp/keygen/keygen.go", "Start")},
			{"cmpRefresh", "cmp.Refresh", g("protocols/cmp/cmp.go", "Refresh")},
			{"cmpSign", "cmp sign.StartSign", g("protocols/cmp/sign/sign.go", "StartSign")},
			{"cmpPresign", "cmp presign.StartPresign", g("protocols/cmp/presign/sign.go", "StartPresign")},
			{"cmpPresignOnline", "cmp presign.StartPresignOnline", g("protocols/cmp/presign/sign.go", "StartPresignOnline")},
			{"cmpCanSign", "cmp Config.CanSign", g("protocols/cmp/config/config.go", "Config.CanSign")},
			{"cmpValidThreshold", "cmp config.ValidThreshold", g("protocols/cmp/config/config.go", "ValidThreshold")},
			{"frostKeygenCommon", "frost keygen.StartKeygenCommon", g("protocols/frost/keygen/keygen.go", "StartKeygenCommon")},
			{"frostRefresh", "frost.Refresh", g("protocols/frost/frost.go", "Refresh")},
			{"frostRefreshTaproot", "frost.RefreshTaproot", g("protocols/frost/frost.go", "RefreshTaproot")},
			{"frostSign", "frost.Sign", g("protocols/frost/frost.go", "Sign")},
			{"frostSignTaproot", "frost.SignTaproot", g("protocols/frost/frost.go", "SignTaproot")},
			{"frostSignCommon", "frost sign.StartSignCommon", g("protocols/frost/sign/sign.go", "StartSignCommon")},
			{"doernerStartKeygen", "doerner keygen.StartKeygen", g("protocols/doerner/keygen/keygen.go", "StartKeygen")},
			{"doernerRefreshReceiver", "doerner.RefreshReceiver", g("protocols/doerner/doerner.go", "RefreshReceiver")},
			{"doernerRefreshSender", "doerner.RefreshSender", g("protocols/doerner/doerner.go", "RefreshSender")},
			{"doernerSignReceiver", "doerner sign.StartSignReceiver", g("protocols/doerner/sign/sign.go", "StartSignReceiver")},
			{"doernerSignSender", "doerner sign.StartSignSender", g("protocols/doerner/sign/sign.go", "StartSignSender")},
			{"presigValidate", "ecdsa.PreSignature.Validate", g("pkg/ecdsa/presignature.go", "PreSignature.Validate")},
		}
	})
}
