package main

// The fact tables. Each entry names a source location and an extractor.
func init() {
	registerModule("Hash", func() []Fact {
		return []Fact{
			{"domains", "every `Domain() string` method of the repository: dir|receiver|returned literal(s)", domainTable()},
			{"newPrefix", "what hash.New writes before any item", callsIn("pkg/hash/hash.go", "New", `\.h\.Write`)},
			{"writeAnyFraming", "the writes WriteAny performs for every item, in order", callsIn("pkg/hash/hash.go", "Hash.WriteAny", `\.h\.Write|PutUint64`)},
			{"writeAnyCases", "type switch order of WriteAny", switchCases("pkg/hash/hash.go", "Hash.WriteAny")},
			{"writeAnyDomains", "the (domain, bytes) pair chosen in each switch case", compositesIn("pkg/hash/hash.go", "Hash.WriteAny", `^BytesWithDomain$`)},
			{"sumLength", "constants of pkg/hash/hash.go", constsIn("pkg/hash/hash.go")},
			{"commitWrites", "Hash.Commit: what is hashed", callsIn("pkg/hash/commit.go", "Hash.Commit", `WriteAny|Sum|Clone|rand\.Read`)},
			{"decommitWrites", "Hash.Decommit: validation and what is hashed", callsIn("pkg/hash/commit.go", "Hash.Decommit", `WriteAny|Sum|Clone|Validate|Equal`)},
			{"commitmentValidate", "Commitment.Validate guards", guardsIn("pkg/hash/commit.go", "Commitment.Validate")},
			{"decommitmentValidate", "Decommitment.Validate guards", guardsIn("pkg/hash/commit.go", "Decommitment.Validate")},
			{"idWrite", "party.ID.WriteTo", append(guardsIn("pkg/party/id.go", "ID.WriteTo"), callsIn("pkg/party/id.go", "ID.WriteTo", `Write`)...)},
			{"idSliceWrite", "party.IDSlice.WriteTo", append(guardsIn("pkg/party/idslice.go", "IDSlice.WriteTo"), callsIn("pkg/party/idslice.go", "IDSlice.WriteTo", `Write`)...)},
			{"ridWrite", "types.RID.WriteTo", append(guardsIn("internal/types/rid.go", "RID.WriteTo"), callsIn("internal/types/rid.go", "RID.WriteTo", `Write`)...)},
			{"thresholdWrite", "types.ThresholdWrapper.WriteTo", callsIn("internal/types/threshold.go", "ThresholdWrapper.WriteTo", `Write|PutUint|make`)},
			{"roundNumberWrite", "round.Number.WriteTo", callsIn("internal/round/number.go", "Number.WriteTo", `Write`)},
			{"signingMessageWrite", "types.SigningMessage.WriteTo / Domain", append(callsIn("internal/types/message.go", "SigningMessage.WriteTo", `Write`), guardsIn("internal/types/message.go", "SigningMessage.Domain")...)},
			{"ciphertextWrite", "paillier.Ciphertext.WriteTo", callsIn("pkg/paillier/ciphertext.go", "Ciphertext.WriteTo", `Write|FillBytes|make`)},
			{"publicKeyWrite", "paillier.PublicKey.WriteTo", callsIn("pkg/paillier/public.go", "PublicKey.WriteTo", `Write|Bytes`)},
			{"pedersenWrite", "pedersen.Parameters.WriteTo", callsIn("pkg/pedersen/pedersen.go", "Parameters.WriteTo", `Write|FillBytes|make`)},
			{"elgamalWrite", "elgamal.Ciphertext.WriteTo", callsIn("internal/elgamal/elgamal.go", "Ciphertext.WriteTo", `Write|MarshalBinary`)},
			{"params", "internal/params constants", constsIn("internal/params/params.go")},
		}
	})
	registerModule("Session", func() []Fact {
		return []Fact{
			{"newSessionWrites", "round.NewSession: every write into the session hash with its guard", callsIn("internal/round/helper.go", "NewSession", `WriteAny|hash\.New|Sum`)},
			{"newSessionGuards", "round.NewSession: conditions that refuse the parameters", guardsIn("internal/round/helper.go", "NewSession")},
			{"hashForID", "Helper.HashForID", callsIn("internal/round/helper.go", "Helper.HashForID", `WriteAny|Clone`)},
			{"messageHash", "protocol.Message.Hash: the items hashed", callsArgsOrMissing("pkg/protocol/message.go", "Message.Hash", `^hash\.New$`)},
			{"canAcceptGuards", "MultiHandler.CanAccept refusal conditions", guardsIn("pkg/protocol/handler.go", "MultiHandler.canAccept")},
			{"twoPartyCanAcceptGuards", "TwoPartyHandler.CanAccept refusal conditions", guardsIn("pkg/protocol/twoparty.go", "TwoPartyHandler.canAccept")},
			{"multiHandlerLocks", "first two statements of every exported MultiHandler method", lockTable("pkg/protocol/handler.go", "MultiHandler")},
			{"twoPartyHandlerLocks", "first two statements of every exported TwoPartyHandler method", lockTable("pkg/protocol/twoparty.go", "TwoPartyHandler")},
			{"multiHandlerStop", "MultiHandler.Stop: guards and calls", append(guardsIn("pkg/protocol/handler.go", "MultiHandler.Stop"), callsIn("pkg/protocol/handler.go", "MultiHandler.Stop", `abort`)...)},
			{"twoPartyHandlerStop", "TwoPartyHandler.Stop: guards and calls", append(guardsIn("pkg/protocol/twoparty.go", "TwoPartyHandler.Stop"), callsIn("pkg/protocol/twoparty.go", "TwoPartyHandler.Stop", `abort`)...)},
			{"receivedAllEcho", "MultiHandler.receivedAll: how the echo hash of a round is computed", callsIn("pkg/protocol/handler.go", "MultiHandler.receivedAll", `Hash|WriteAny|Sum`)},
			{"receivedAllRanges", "MultiHandler.receivedAll: whose messages are required / hashed", rangesIn("pkg/protocol/handler.go", "MultiHandler.receivedAll")},
			{"checkBroadcastHash", "MultiHandler.checkBroadcastHash guards", guardsIn("pkg/protocol/handler.go", "MultiHandler.checkBroadcastHash")},
			{"checkBroadcastHashRanges", "MultiHandler.checkBroadcastHash: which queues are compared", rangesIn("pkg/protocol/handler.go", "MultiHandler.checkBroadcastHash")},
			{"finalizeEcho", "MultiHandler.finalize: the echo check precedes the round's Finalize", callsIn("pkg/protocol/handler.go", "MultiHandler.finalize", `receivedAll|checkBroadcastHash|Finalize|abort`)},
			{"outCapacity", "capacity of the handlers' out channels", append(callsIn("pkg/protocol/handler.go", "NewMultiHandler", `^make$`), callsIn("pkg/protocol/twoparty.go", "NewTwoPartyHandler", `^make$`)...)},
			{"verifyOrder", "verifyMessage / verifyBroadcastMessage / abortVerification: the view check precedes decoding and verification", append(append(callsIn("pkg/protocol/handler.go", "MultiHandler.verifyBroadcastMessage", `sameBroadcastView|getRoundMessage|StoreBroadcastMessage|verifyMessage`), callsIn("pkg/protocol/handler.go", "MultiHandler.verifyMessage", `sameBroadcastView|getRoundMessage|VerifyMessage|StoreMessage`)...), append(guardsIn("pkg/protocol/handler.go", "MultiHandler.sameBroadcastView"), callsIn("pkg/protocol/handler.go", "MultiHandler.abortVerification", `abort|Is`)...)...)},
			{"isFor", "Message.IsFor", append(guardsIn("pkg/protocol/message.go", "Message.IsFor"), returnsIn("pkg/protocol/message.go", "Message.IsFor")...)},
		}
	})
}

func callsArgsOrMissing(rel, fn, re string) []string { return callArgs(rel, fn, re) }
