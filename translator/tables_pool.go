package main

// Fact tables of module Pool (property C18): the synchronisation skeleton of pkg/pool/pool.go —
// for worker, workerSearch, Parallelize, Search (and the two nil-pool loops) the ordered channel
// operations, atomic operations, result writes, counters and loop/branch structure — which is what
// the transition systems in lean/Mps/Pool.lean transcribe.

import (
	"go/ast"
	"go/token"
	"regexp"
	"strconv"
	"strings"
)

const poolFile = "pkg/pool/pool.go"

// syncSkeleton prints the control skeleton of fn, one entry per statement that matters for the
// interleaving semantics, as "<depth>|<kind> <text>" in source order. Kinds: for, range, if, else,
// select, case (send / recv / default), send, recv, atomic, write (assignment to an indexed slot),
// incr, call (f / workerSearch / the alone-loops), continue, return. Calls to yield(...) (the
// no-op verification hooks) are skipped, so the skeleton is the same with and without the hooks.
func syncSkeleton(rel, fn string) []string {
	fd := findFunc(rel, fn)
	if fd == nil || fd.Body == nil {
		return missing(rel + ":" + fn)
	}
	out := []string{}
	emit := func(d int, kind, text string) {
		out = append(out, strings.TrimSpace(strconv.Itoa(d)+"|"+kind+" "+text))
	}
	callRx := regexp.MustCompile(`^(workerSearch|f|c\.f|searchAlone|parallelizeAlone|worker)$`)
	hasAtomic := func(n ast.Node) bool {
		found := false
		ast.Inspect(n, func(m ast.Node) bool {
			if c, ok := m.(*ast.CallExpr); ok && strings.HasPrefix(src(c.Fun), "atomic.") {
				found = true
			}
			return !found
		})
		return found
	}
	hasRecv := func(n ast.Node) bool {
		found := false
		ast.Inspect(n, func(m ast.Node) bool {
			if u, ok := m.(*ast.UnaryExpr); ok && u.Op == token.ARROW {
				found = true
			}
			return !found
		})
		return found
	}
	hasCall := func(n ast.Node) bool {
		found := false
		ast.Inspect(n, func(m ast.Node) bool {
			if _, ok := m.(*ast.FuncLit); ok {
				return false
			}
			if c, ok := m.(*ast.CallExpr); ok && callRx.MatchString(src(c.Fun)) {
				found = true
			}
			return !found
		})
		return found
	}
	var walk func(s ast.Stmt, d int)
	block := func(b *ast.BlockStmt, d int) {
		if b == nil {
			return
		}
		for _, s := range b.List {
			walk(s, d)
		}
	}
	walk = func(s ast.Stmt, d int) {
		switch x := s.(type) {
		case *ast.BlockStmt:
			block(x, d)
		case *ast.ForStmt:
			h := ""
			if x.Init != nil {
				h += src(x.Init)
			}
			h += "; "
			if x.Cond != nil {
				h += src(x.Cond)
			}
			h += "; "
			if x.Post != nil {
				h += src(x.Post)
			}
			emit(d, "for", h)
			block(x.Body, d+1)
		case *ast.RangeStmt:
			emit(d, "range", src(x.X))
			block(x.Body, d+1)
		case *ast.IfStmt:
			c := src(x.Cond)
			if x.Init != nil {
				c = src(x.Init) + "; " + c
			}
			emit(d, "if", c)
			block(x.Body, d+1)
			if x.Else != nil {
				emit(d, "else", "")
				walk(x.Else, d+1)
			}
		case *ast.SelectStmt:
			emit(d, "select", "")
			for _, cc := range x.Body.List {
				cl := cc.(*ast.CommClause)
				switch {
				case cl.Comm == nil:
					emit(d+1, "case", "default")
				default:
					if snd, ok := cl.Comm.(*ast.SendStmt); ok {
						emit(d+1, "case", "send "+src(snd))
					} else {
						emit(d+1, "case", "recv "+src(cl.Comm))
					}
				}
				for _, b := range cl.Body {
					walk(b, d+2)
				}
			}
		case *ast.SendStmt:
			emit(d, "send", src(x))
		case *ast.IncDecStmt:
			emit(d, "incr", src(x))
		case *ast.ReturnStmt:
			emit(d, "return", strings.TrimSpace(strings.TrimPrefix(src(x), "return")))
		case *ast.BranchStmt:
			emit(d, strings.ToLower(x.Tok.String()), "")
		case *ast.GoStmt:
			emit(d, "go", src(x.Call))
		case *ast.ExprStmt:
			if c, ok := x.X.(*ast.CallExpr); ok && src(c.Fun) == "yield" {
				return
			}
			switch {
			case hasRecv(x):
				emit(d, "recv", src(x))
			case hasAtomic(x):
				emit(d, "atomic", src(x))
			case hasCall(x):
				emit(d, "call", src(x))
			}
		case *ast.AssignStmt:
			_, idx := x.Lhs[0].(*ast.IndexExpr)
			switch {
			case idx:
				emit(d, "write", src(x))
			case hasAtomic(x):
				emit(d, "atomic", src(x))
			case hasRecv(x):
				emit(d, "recv", src(x))
			case hasCall(x):
				emit(d, "call", src(x))
			default:
				// counters and channels of the handshake
				for _, r := range x.Rhs {
					if c, ok := r.(*ast.CallExpr); ok && src(c.Fun) == "make" {
						emit(d, "make", src(x))
						return
					}
				}
				for _, l := range x.Lhs {
					if id, ok := l.(*ast.Ident); ok && regexp.MustCompile(`^(ctr|cmdI|done)$`).MatchString(id.Name) {
						emit(d, "init", src(x))
						return
					}
				}
			}
		}
	}
	block(fd.Body, 0)
	return out
}

// yieldPoints: the names passed to yield(...) inside fn, in source order (empty without the hooks).
func yieldPoints(rel string, fns ...string) []string {
	out := []string{}
	for _, fn := range fns {
		fd := findFunc(rel, fn)
		if fd == nil || fd.Body == nil {
			return missing(rel + ":" + fn)
		}
		ast.Inspect(fd.Body, func(n ast.Node) bool {
			if c, ok := n.(*ast.CallExpr); ok && src(c.Fun) == "yield" && len(c.Args) == 1 {
				out = append(out, strings.Trim(src(c.Args[0]), `"`))
			}
			return true
		})
	}
	return out
}

// searchUses: every call of (*Pool).Search / Parallelize outside pkg/pool in the given files: "file: callee(first argument, ...)".
func poolUses(rels ...string) []string {
	out := []string{}
	for _, rel := range rels {
		f := parseFile(rel)
		if f == nil {
			return missing(rel)
		}
		ast.Inspect(f, func(n ast.Node) bool {
			if c, ok := n.(*ast.CallExpr); ok {
				if se, ok := c.Fun.(*ast.SelectorExpr); ok && (se.Sel.Name == "Search" || se.Sel.Name == "Parallelize") && len(c.Args) == 2 {
					out = append(out, rel+": "+src(c.Fun)+"("+src(c.Args[0])+", …)")
				}
			}
			return true
		})
	}
	return out
}

func init() {
	registerModule("Pool", func() []Fact {
		return []Fact{
			{"worker", "pool.worker: synchronisation skeleton", syncSkeleton(poolFile, "worker")},
			{"workerSearch", "pool.workerSearch: synchronisation skeleton", syncSkeleton(poolFile, "workerSearch")},
			{"parallelize", "(*Pool).Parallelize: synchronisation skeleton", syncSkeleton(poolFile, "Pool.Parallelize")},
			{"search", "(*Pool).Search: synchronisation skeleton", syncSkeleton(poolFile, "Pool.Search")},
			{"parallelizeAlone", "pool.parallelizeAlone (nil pool)", syncSkeleton(poolFile, "parallelizeAlone")},
			{"searchAlone", "pool.searchAlone (nil pool)", syncSkeleton(poolFile, "searchAlone")},
			{"newPool", "pool.NewPool: channel (unbuffered) and worker start-up", syncSkeleton(poolFile, "NewPool")},
			{"commandFields", "fields of pool.command", structFields(poolFile, "command")},
			{"yieldPoints", "verification yield points (hook H2) of worker, workerSearch, Parallelize, Search, in source order; empty when the hooks are not in the tree",
				yieldPoints(poolFile, "worker", "workerSearch", "Pool.Parallelize", "Pool.Search")},
			{"uses", "calls of the pool from pkg/math/sample/prime.go", poolUses("pkg/math/sample/prime.go")},
			{"lockedRead", "(*LockedReader).Read: lock, deferred unlock, one Read of the wrapped reader", funcLines(poolFile, "LockedReader.Read")},
			{"paillierSearch", "sample.Paillier: ONE locked reader made before the search, used by every invocation of the closure", funcLines("pkg/math/sample/prime.go", "Paillier")},
		}
	})
}
