package main

import (
	"go/ast"
	"regexp"
)

// Fact tables of the ALGEBRA layer (M2): the statements of the Go functions that
// lean/Mps/Algebra.lean transcribes. Obligations over them: lean/MpsProps/AlgGen.lean.

// bodyStmts flattens the body of fn: every simple statement printed in source order; compound
// statements contribute a header line ("for …", "if …", "else", "range …") and a closing "}".
func bodyStmts(rel, fn string) []string {
	fd := findFunc(rel, fn)
	if fd == nil || fd.Body == nil {
		return missing(rel + ":" + fn)
	}
	out := []string{}
	var walk func(s ast.Stmt)
	block := func(b *ast.BlockStmt) {
		for _, s := range b.List {
			walk(s)
		}
	}
	walk = func(s ast.Stmt) {
		switch x := s.(type) {
		case *ast.BlockStmt:
			block(x)
		case *ast.ForStmt:
			h := "for "
			if x.Init != nil {
				h += src(x.Init)
			}
			h += "; "
			if x.Cond != nil {
				h += src(x.Cond)
			}
			h += "; "
			if x.Post != nil {
				h += src(x.Post)
			}
			out = append(out, h+" {")
			block(x.Body)
			out = append(out, "}")
		case *ast.RangeStmt:
			h := "range "
			if x.Key != nil {
				h += src(x.Key)
			}
			if x.Value != nil {
				h += ", " + src(x.Value)
			}
			out = append(out, h+" := "+src(x.X)+" {")
			block(x.Body)
			out = append(out, "}")
		case *ast.IfStmt:
			h := "if "
			if x.Init != nil {
				h += src(x.Init) + "; "
			}
			out = append(out, h+src(x.Cond)+" {")
			block(x.Body)
			if x.Else != nil {
				out = append(out, "} else {")
				walk(x.Else)
			}
			out = append(out, "}")
		case *ast.ReturnStmt:
			// `return func(...) {...}` (the StartFunc closures): descend into the closure
			if len(x.Results) == 1 {
				if fl, ok := x.Results[0].(*ast.FuncLit); ok {
					out = append(out, "return func {")
					block(fl.Body)
					out = append(out, "}")
					return
				}
			}
			out = append(out, src(s))
		default:
			out = append(out, src(s))
		}
	}
	block(fd.Body)
	return out
}

// stmtsMatching: the simple statements of fn (any nesting depth, source order) whose text matches re.
func stmtsMatching(rel, fn, re string) []string {
	all := bodyStmts(rel, fn)
	if len(all) == 1 && len(all[0]) > 2 && all[0][:2] == "<<" {
		return all
	}
	rx := regexp.MustCompile(re)
	out := []string{}
	for _, s := range all {
		if rx.MatchString(s) {
			out = append(out, s)
		}
	}
	return out
}

func init() {
	registerModule("Alg", func() []Fact {
		lag := "pkg/math/polynomial/lagrange.go"
		pol := "pkg/math/polynomial/polynomial.go"
		exp := "pkg/math/polynomial/exponent.go"
		return []Fact{
			// ---- polynomial
			{"lagrangeNumerator", "getScalarsAndNumerator: body", bodyStmts(lag, "getScalarsAndNumerator")},
			{"lagrangeBody", "polynomial.lagrange: body", bodyStmts(lag, "lagrange")},
			{"lagrangeFor", "LagrangeFor: body", bodyStmts(lag, "LagrangeFor")},
			{"lagrangeWrappers", "Lagrange and LagrangeSingle: what they return", append(returnsIn(lag, "Lagrange"), returnsIn(lag, "LagrangeSingle")...)},
			{"idScalar", "party.ID.Scalar", returnsIn("pkg/party/id.go", "ID.Scalar")},
			{"polyEvaluate", "Polynomial.Evaluate: body", bodyStmts(pol, "Polynomial.Evaluate")},
			{"newPolynomialExponent", "NewPolynomialExponent: body", bodyStmts(exp, "NewPolynomialExponent")},
			{"expEvaluate", "Exponent.Evaluate: body", bodyStmts(exp, "Exponent.Evaluate")},
			{"expDegree", "Exponent.Degree: body", bodyStmts(exp, "Exponent.Degree")},
			{"expConstant", "Exponent.Constant: body", bodyStmts(exp, "Exponent.Constant")},
			{"expAdd", "Exponent.add: body", bodyStmts(exp, "Exponent.add")},
			{"expSum", "polynomial.Sum: body", bodyStmts(exp, "Sum")},
			{"fromHash", "curve.FromHash: body", bodyStmts("pkg/math/curve/curve.go", "FromHash")},
			{"scalarSetNat", "Secp256k1Scalar.SetNat / Invert / XScalar", append(append(bodyStmts("pkg/math/curve/secp256k1.go", "Secp256k1Scalar.SetNat"),
				bodyStmts("pkg/math/curve/secp256k1.go", "Secp256k1Scalar.Invert")...), bodyStmts("pkg/math/curve/secp256k1.go", "Secp256k1Point.XScalar")...)},
			// ---- keygen / refresh final computations and checks
			{"cmpKeygenChecks", "cmp keygen round3.StoreBroadcastMessage: refusal conditions", guardsIn("protocols/cmp/keygen/round3.go", "round3.StoreBroadcastMessage")},
			{"cmpKeygenVss", "cmp keygen round4.StoreMessage: share range and VSS check", stmtsMatching("protocols/cmp/keygen/round4.go", "round4.StoreMessage", `Share|Evaluate|Equal`)},
			{"cmpKeygenFinal", "cmp keygen round4.Finalize: share and table", stmtsMatching("protocols/cmp/keygen/round4.go", "round4.Finalize", `^UpdatedSecretECDSA|^PublicECDSAShare|^ShamirPublicPolynomial, err|^range _, j|^if r\.Previous`)},
			{"cmpPublicPoint", "cmp Config.PublicPoint: body", bodyStmts("protocols/cmp/config/config.go", "Config.PublicPoint")},
			{"frostKeygenChecks", "frost keygen round2.StoreBroadcastMessage: refusal conditions (no degree check)", guardsIn("protocols/frost/keygen/round2.go", "round2.StoreBroadcastMessage")},
			{"frostKeygenVss", "frost keygen round3.StoreMessage: VSS check", stmtsMatching("protocols/frost/keygen/round3.go", "round3.StoreMessage", `expected|actual|shareFrom`)},
			{"frostKeygenFinal", "frost keygen round3.Finalize: share, key, table, chain key", stmtsMatching("protocols/frost/keygen/round3.go", "round3.Finalize", `privateShare\.Add|publicKey = |verificationShares\[k\] = |polynomial\.Sum|^ChainKey`)},
			{"frostKeygenConfig", "frost keygen round3.Finalize: the Config literals returned", compositesIn("protocols/frost/keygen/round3.go", "round3.Finalize", `^(Taproot)?Config$`)},
			{"frostRefreshStart", "frost StartKeygenCommon: what happens to the caller's previous share / key before the rounds use them", stmtsMatching("protocols/frost/keygen/keygen.go", "StartKeygenCommon", `privateShare = |publicKey = |^refresh|^if privateShare`)},
			{"doernerKeygenShares", "doerner keygen round2R/round2S.StoreMessage: share, public, chain key", append(stmtsMatching("protocols/doerner/keygen/round2R.go", "round2R.StoreMessage", `secretShare|public =|chainKey`),
				stmtsMatching("protocols/doerner/keygen/round2S.go", "round2S.StoreMessage", `secretShare|public =|chainKey`)...)},
			// ---- FROST signing
			{"frostSignRound2", "frost sign round2.Finalize: R shares, response", stmtsMatching("protocols/frost/sign/round2.go", "round2.Finalize", `RShares\[l\] = |^R = |z_i|^ed := |Lambdas := `)},
			{"frostSignRound3", "frost sign round3: share check and assembly", append(stmtsMatching("protocols/frost/sign/round3.go", "round3.StoreBroadcastMessage", `expected|actual`),
				stmtsMatching("protocols/frost/sign/round3.go", "round3.Finalize", `^z := |z\.Add|sig\.Verify|Verify\(`)...)},
			{"frostVerify", "frost Signature.Verify: body", bodyStmts("protocols/frost/sign/types.go", "Signature.Verify")},
			// ---- CMP signing / presigning
			{"cmpStartSign", "cmp StartSign: share scaling", stmtsMatching("protocols/cmp/sign/sign.go", "StartSign", `lagrange|^PublicKey = `)},
			{"cmpStartPresign", "cmp StartPresign: share scaling", stmtsMatching("protocols/cmp/presign/sign.go", "StartPresign", `lagrange|^PublicKey = `)},
			{"cmpSignRound3", "cmp sign round3.Finalize: Γ, Δᵢ, δᵢ, χᵢ", stmtsMatching("protocols/cmp/sign/round3.go", "round3.Finalize", `Gamma = |BigDeltaShare := |DeltaShare := |ChiShare := |DeltaShare\.Add|ChiShare\.Add|DeltaShareScalar := |ChiShare: `)},
			{"cmpSignRound4", "cmp sign round4.Finalize: δ, Δ check, R, σᵢ", stmtsMatching("protocols/cmp/sign/round4.go", "round4.Finalize", `Delta\.Add|BigDelta = |deltaComputed|deltaInv := |BigR := |^R := |^km|SigmaShare := `)},
			{"cmpSignRound5", "cmp sign round5.Finalize: s, verification guard", stmtsMatching("protocols/cmp/sign/round5.go", "round5.Finalize", `Sigma\.Add|signature := |Verify`)},
			{"cmpPresign3", "cmp presign3.Finalize: δᵢ, χᵢ", stmtsMatching("protocols/cmp/presign/presign3.go", "presign3.Finalize", `DeltaShare := |ChiShare := |DeltaShare\.Add|ChiShare\.Add|DeltaShareScalar := `)},
			{"cmpPresign6", "cmp presign6.Finalize: δ, R, S, RBar", stmtsMatching("protocols/cmp/presign/presign6.go", "presign6.Finalize", `Delta\.Add|DeltaInv := |^R := |BigDeltaExpected := |BigDeltaActual = |^S := |RBar\[j\] = `)},
			{"cmpPresign7", "cmp presign7.Finalize: Σ Sⱼ = X", stmtsMatching("protocols/cmp/presign/presign7.go", "presign7.Finalize", `PublicKeyComputed`)},
			{"mtaNew", "internal/mta newMta: D = enc(a·b − β), β returned negated", append(bodyStmts("internal/mta/mta.go", "newMta"), stmtsMatching("internal/mta/mta.go", "ProveAffG", `Beta = `)...)},
			{"presigShare", "PreSignature.SignatureShare / Signature / VerifySignatureShares", append(append(bodyStmts("pkg/ecdsa/presignature.go", "PreSignature.SignatureShare"),
				stmtsMatching("pkg/ecdsa/presignature.go", "PreSignature.Signature", `s\.Add|^s := `)...), stmtsMatching("pkg/ecdsa/presignature.go", "PreSignature.VerifySignatureShares", `lhs|rhs|^r := |^m := `)...)},
			{"ecdsaVerify", "ecdsa.Signature.Verify: body", bodyStmts("pkg/ecdsa/signature.go", "Signature.Verify")},
			// ---- Doerner signing
			{"doernerSign1R", "doerner sign round1R.Finalize", stmtsMatching("protocols/doerner/sign/round1R.go", "round1R.Finalize", `kB|^D := |beta := `)},
			{"doernerSign1S", "doerner sign round1S.Finalize", stmtsMatching("protocols/doerner/sign/round1S.go", "round1S.Finalize", `^kA := |^R := |phi := |kAInv|alpha\d := |alpha0\.Add|tA2 := |Gamma1 := |muPhi := |sigA := |Gamma2 := |muSig := `)},
			{"doernerSign2R", "doerner sign round2R.Finalize", stmtsMatching("protocols/doerner/sign/round2R.go", "round2R.Finalize", `^R := |tB2 := |Gamma1 := |^phi := |theta := |sigB := |Gamma2 := |sigAB := |^sig := |sig\.Verify`)},
			// ---- derivation
			{"bip32Derive", "bip32.DeriveScalar: body", bodyStmts("internal/bip32/bip32.go", "DeriveScalar")},
			{"cmpDerive", "cmp Config.Derive: guards, tweak of the table, result literal", append(append(guardsIn("protocols/cmp/config/config.go", "Config.Derive"),
				stmtsMatching("protocols/cmp/config/config.go", "Config.Derive", `adjustG := |^newChainKey = `)...), compositesIn("protocols/cmp/config/config.go", "Config.Derive", `^(Public|Config)$`)...)},
			{"cmpDeriveBIP32", "cmp Config.DeriveBIP32: calls", callsIn("protocols/cmp/config/config.go", "Config.DeriveBIP32", `PublicPoint|DeriveScalar|Derive$`)},
			{"frostDerive", "frost Config.Derive: guards, table tweak, result literal", append(append(guardsIn("protocols/frost/keygen/config.go", "Config.Derive"),
				stmtsMatching("protocols/frost/keygen/config.go", "Config.Derive", `adjustG := |verificationShares\[k\] = |^newChainKey = `)...), compositesIn("protocols/frost/keygen/config.go", "Config.Derive", `^Config$`)...)},
			{"frostDeriveChild", "frost Config.DeriveChild: calls", callsIn("protocols/frost/keygen/config.go", "Config.DeriveChild", `DeriveScalar|Derive$`)},
			{"doernerDeriveReceiver", "doerner ConfigReceiver.Derive: guards and result literal", append(append(stmtsMatching("protocols/doerner/keygen/keygen.go", "ConfigReceiver.Derive", `^newChainKey = |adjustG := `), guardsIn("protocols/doerner/keygen/keygen.go", "ConfigReceiver.Derive")...),
				compositesIn("protocols/doerner/keygen/keygen.go", "ConfigReceiver.Derive", `^ConfigReceiver$`)...)},
			{"doernerDeriveSender", "doerner ConfigSender.Derive: guards and result literal", append(append(stmtsMatching("protocols/doerner/keygen/keygen.go", "ConfigSender.Derive", `^newChainKey = |adjustG := `), guardsIn("protocols/doerner/keygen/keygen.go", "ConfigSender.Derive")...),
				compositesIn("protocols/doerner/keygen/keygen.go", "ConfigSender.Derive", `^ConfigSender$`)...)},
		}
	})
}
