package main

// Guard-before-use tables (C05). Purely syntactic (go/ast):
//
//   zkProofFields   for every proof type of pkg/zk/*: each nil-able field of Proof / Commitment and whether
//                   IsValid establishes it ("guarded"), or Verify uses it although IsValid never mentions it
//                   ("UNGUARDED"), or nobody uses it ("unused"). The embedded *Commitment counts as guarded only
//                   when IsValid compares it with nil (a promoted field access through a nil embedded pointer panics).
//   roundFields     for every round of every protocol and each of the units the handlers run
//                   (StoreBroadcastMessage; VerifyMessage followed by StoreMessage): each nil-able field of the
//                   message content, and whether its first occurrence is a guard (nil comparison, IsValid /
//                   Validate / Verify on the field, a nil-safe validator applied to it, IsIdentity) or a use.
//
// A row "…|UNGUARDED|…" or "…|USE-FIRST|…" is a candidate crash site: suite `malform` aims at exactly these fields.

import (
	"go/ast"
	"os"
	"path/filepath"
	"regexp"
	"sort"
	"strings"
)

func nilable(t ast.Expr) bool {
	switch x := t.(type) {
	case *ast.StarExpr, *ast.ArrayType, *ast.MapType, *ast.InterfaceType:
		if a, ok := x.(*ast.ArrayType); ok && a.Len != nil {
			return false // fixed-size array
		}
		return true
	case *ast.SelectorExpr:
		// interface types of the library and slice-typed named types
		s := src(x)
		switch s {
		case "curve.Scalar", "curve.Point", "hash.Commitment", "hash.Decommitment", "types.RID", "cbor.RawMessage":
			return true
		}
	}
	return false
}

func structFieldList(f *ast.File, name string) (names []string, types map[string]ast.Expr) {
	types = map[string]ast.Expr{}
	ast.Inspect(f, func(n ast.Node) bool {
		ts, ok := n.(*ast.TypeSpec)
		if !ok || ts.Name.Name != name {
			return true
		}
		st, ok := ts.Type.(*ast.StructType)
		if !ok {
			return true
		}
		for _, fl := range st.Fields.List {
			if len(fl.Names) == 0 {
				nm := src(fl.Type)
				nm = strings.TrimPrefix(nm, "*")
				if i := strings.LastIndex(nm, "."); i >= 0 {
					nm = nm[i+1:]
				}
				names = append(names, nm)
				types[nm] = fl.Type
			}
			for _, n := range fl.Names {
				names = append(names, n.Name)
				types[n.Name] = fl.Type
			}
		}
		return false
	})
	return
}

func funcText(fd *ast.FuncDecl) string {
	if fd == nil || fd.Body == nil {
		return ""
	}
	return src(fd.Body)
}

func mentions(text, recv, field string) bool {
	return regexp.MustCompile(`\b` + regexp.QuoteMeta(recv) + `\.` + regexp.QuoteMeta(field) + `\b`).MatchString(text)
}

func zkProofFields() []string {
	out := []string{}
	dirs, _ := os.ReadDir(filepath.Join(repo, "pkg/zk"))
	for _, d := range dirs {
		if !d.IsDir() {
			continue
		}
		rel := filepath.Join("pkg/zk", d.Name(), d.Name()+".go")
		f := parseFile(rel)
		if f == nil {
			continue
		}
		isValid := findFunc(rel, "Proof.IsValid")
		verify := findFunc(rel, "Proof.Verify")
		recv := func(fd *ast.FuncDecl) string {
			if fd != nil && fd.Recv != nil && len(fd.Recv.List) > 0 && len(fd.Recv.List[0].Names) > 0 {
				return fd.Recv.List[0].Names[0].Name
			}
			return "p"
		}
		iv, vf := funcText(isValid), funcText(verify)
		pNames, pTypes := structFieldList(f, "Proof")
		cNames, cTypes := structFieldList(f, "Commitment")
		all := append([]string{}, pNames...)
		types := map[string]ast.Expr{}
		for k, v := range pTypes {
			types[k] = v
		}
		if _, embedded := pTypes["Commitment"]; embedded {
			for _, n := range cNames {
				all = append(all, n)
				types[n] = cTypes[n]
			}
		}
		for _, n := range all {
			t := types[n]
			if !nilable(t) {
				continue
			}
			status := "unused"
			switch {
			case n == "Commitment":
				if strings.Contains(iv, recv(isValid)+".Commitment == nil") {
					status = "guarded"
				} else {
					status = "UNGUARDED"
				}
			case mentions(iv, recv(isValid), n):
				status = "guarded"
			case regexp.MustCompile(`\b` + regexp.QuoteMeta(recv(verify)) + `\.(Comm\.)?` + regexp.QuoteMeta(n) + ` == nil`).MatchString(vf):
				status = "guarded" // proofs without IsValid: nil comparison at the head of Verify
			case mentions(vf, recv(verify), n):
				status = "UNGUARDED"
			}
			out = append(out, "zk/"+d.Name()+"|"+n+"|"+src(t)+"|"+status)
		}
	}
	sort.Strings(out)
	return out
}

var guardPatterns = []string{
	`%s == nil`, `%s != nil`, `%s\.IsValid\(`, `%s\.Validate\(`, `%s\.Verify\(`, `%s\.IsIdentity\(`, `%s\.IsZero\(`,
	`%s\.Valid\(`, `\.Decommit\([^)]*%s`, `ValidateCiphertexts\([^)]*%s`, `IsValidNatModN\([^)]*%s`, `IsValidBigModN\([^)]*%s`, `IsInInterval\w*\(%s`, `len\(%s\)`,
}

// first occurrence of body.F in the statement list: is the statement an early-return `if` whose condition guards it?
func classifyField(stmts []ast.Stmt, body, field string) string {
	sel := regexp.QuoteMeta(body) + `\.` + regexp.QuoteMeta(field) + `\b`
	any := regexp.MustCompile(`\b` + sel)
	harmless := regexp.MustCompile(`(len\(|range )` + sel)
	for _, st := range stmts {
		text := src(st)
		if !any.MatchString(harmless.ReplaceAllString(text, "")) {
			continue // not mentioned, or only measured / ranged over (nil-safe)
		}
		if is, ok := st.(*ast.IfStmt); ok {
			cond := src(is.Cond)
			if is.Init != nil {
				cond = src(is.Init) + "; " + cond
			}
			returns := false
			for _, b := range is.Body.List {
				if _, ok := b.(*ast.ReturnStmt); ok {
					returns = true
				}
			}
			if returns && any.MatchString(cond) {
				// every occurrence inside the condition must be preceded (left to right) by a guard occurrence
				first := any.FindStringIndex(cond)
				for _, gp := range guardPatterns {
					re := regexp.MustCompile(strings.Replace(gp, "%s", `\b`+sel, 1))
					if loc := re.FindStringIndex(cond); loc != nil && loc[0] <= first[0] {
						return "guard-first"
					}
				}
				return "USE-FIRST|" + cond
			}
		}
		if len(text) > 160 {
			text = text[:160]
		}
		return "USE-FIRST|" + text
	}
	return "unused"
}

func roundFields() []string {
	out := []string{}
	root := filepath.Join(repo, "protocols")
	filepath.Walk(root, func(p string, info os.FileInfo, err error) error {
		if err != nil || info.IsDir() || !strings.HasSuffix(p, ".go") || strings.HasSuffix(p, "_test.go") {
			return nil
		}
		rel, _ := filepath.Rel(repo, p)
		if strings.HasPrefix(rel, "protocols/example") {
			return nil // the demo protocol of the documentation is not part of the library's protocols
		}
		f := parseFile(rel)
		if f == nil {
			return nil
		}
		type unit struct {
			name  string
			stmts []ast.Stmt
			typ   string
			body  string
		}
		units := map[string]*unit{}
		for _, d := range f.Decls {
			fd, ok := d.(*ast.FuncDecl)
			if !ok || fd.Body == nil || fd.Recv == nil {
				continue
			}
			n := fd.Name.Name
			if n != "VerifyMessage" && n != "StoreMessage" && n != "StoreBroadcastMessage" {
				continue
			}
			key := recvName(fd) + "." + map[string]string{"VerifyMessage": "VerifyMessage+StoreMessage", "StoreMessage": "VerifyMessage+StoreMessage", "StoreBroadcastMessage": "StoreBroadcastMessage"}[n]
			u := units[key]
			if u == nil {
				u = &unit{name: key}
				units[key] = u
			}
			// content type and variable: `body, ok := msg.Content.(*T)` or `body := msg.Content.(*T)`
			ast.Inspect(fd.Body, func(x ast.Node) bool {
				as, ok := x.(*ast.AssignStmt)
				if !ok || len(as.Rhs) != 1 {
					return true
				}
				ta, ok := as.Rhs[0].(*ast.TypeAssertExpr)
				if !ok || !strings.Contains(src(ta.X), "Content") {
					return true
				}
				for _, l := range as.Lhs {
					if id, ok := l.(*ast.Ident); ok && id.Name != "ok" && id.Name != "_" && u.body == "" {
						u.body = id.Name
						u.typ = strings.TrimPrefix(src(ta.Type), "*")
					}
				}
				return true
			})
			if n == "StoreMessage" {
				u.stmts = append(u.stmts, fd.Body.List...)
			} else {
				u.stmts = append(append([]ast.Stmt{}, fd.Body.List...), u.stmts...)
			}
		}
		keys := []string{}
		for k := range units {
			keys = append(keys, k)
		}
		sort.Strings(keys)
		for _, k := range keys {
			u := units[k]
			if u.body == "" || u.typ == "" {
				continue
			}
			names, types := structFieldList(f, u.typ)
			for _, n := range names {
				if !nilable(types[n]) {
					continue
				}
				out = append(out, rel+":"+u.name+"|"+u.typ+"."+n+"|"+src(types[n])+"|"+classifyField(u.stmts, u.body, n))
			}
		}
		return nil
	})
	sort.Strings(out)
	return out
}

func onlyMarked(rows []string, marks ...string) []string {
	out := []string{}
	for _, r := range rows {
		for _, m := range marks {
			if strings.Contains(r, "|"+m) {
				out = append(out, r)
				break
			}
		}
	}
	return out
}

func init() {
	registerModule("Guards", func() []Fact {
		zk, rd := zkProofFields(), roundFields()
		return []Fact{
			{"zkProofFields", "pkg/zk/*: nil-able proof fields: package|field|type|guarded / UNGUARDED / unused", zk},
			{"zkUnguarded", "the UNGUARDED rows of zkProofFields (candidate crash sites)", onlyMarked(zk, "UNGUARDED")},
			{"roundFields", "protocol rounds: file:round.unit|content.field|type|guard-first / USE-FIRST|stmt / unused", rd},
			{"roundUseFirst", "the USE-FIRST rows of roundFields (candidate crash sites)", onlyMarked(rd, "USE-FIRST")},
			{"exponentUnmarshal", "polynomial.Exponent.UnmarshalBinary: guards before the allocation", guardsIn("pkg/math/polynomial/exponent.go", "Exponent.UnmarshalBinary")},
			{"exponentAlloc", "polynomial.Exponent.UnmarshalBinary: allocations", callsIn("pkg/math/polynomial/exponent.go", "Exponent.UnmarshalBinary", `^make$`)},
			{"decodeCalls", "the handlers' decoding of received content", append(callsIn("pkg/protocol/handler.go", "getRoundMessage", `Unmarshal`), callsIn("pkg/protocol/twoparty.go", "extractRoundMessage", `Unmarshal`)...)},
		}
	})
}
